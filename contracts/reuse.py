"""Second use / leftover state -- bounded, shared by the properties whose steps are in the catalogue (seed round 7, theme 2).

Every property is stated for "all histories": a step object, a Flow object or the module it lives in may have been used before.
The contracts cover this where an object's attributes are havocked (DESIGN 18.10); what follows is the bounded, native side,
stated once for the whole catalogue of built-in steps:

  A  the SAME step object used in a second flow over a DIFFERENT package (other resource names and count, an extra column)
     gives what a fresh step object gives there;
  B  the SAME Flow object run twice gives the same rows and descriptor twice;
  C  building (and running) OTHER steps of the same kind between building a step and running it changes nothing;
  D  after a run of the same Flow object that FAILED half way, the next run gives what a fresh one gives;
  E  datastream() looked at (descriptor only) and dropped, then results() of the same Flow object: as fresh.

A second use that REFUSES to run (raises) is loud, not wrong: it is reported only for the steps that run twice on the pinned tree.
"""
import copy


def data1():
    return [[{'id': v, 'n': i * 1.5, 's': 'v%d' % i, 'k': 'abc'[i % 3]} for i, v in enumerate([3, 20, -1, 100, 9])],
            [{'id': v, 'm': 'x%d' % i, 'k': 'ab'[i % 2]} for i, v in enumerate([5, 40, 6])]]


def data2():
    # (ids that sort differently as numbers and as text; another number of resources, an extra column)
    return [[{'id': v, 'n': 2.5 * i, 's': 'vw%d' % i, 'k': 'ba'[i % 2], 'extra': i} for i, v in enumerate([10, 9, -3, 100])],
            [{'id': v, 'm': 'y', 'k': 'a', 'extra': 1} for v in (11, 2)],
            [{'id': v, 'n': 1.0 + i, 's': 'zv', 'k': 'a'} for i, v in enumerate([7, 60, 5])]]


def catalogue():
    """label -> (maker of a list of steps, maker of a list of OTHER steps of the same kind, properties)"""
    from dataflows import (add_computed_field, add_field, delete_fields, select_fields, rename_fields, find_replace, unpivot,
                           set_type, validate, filter_rows, deduplicate, set_primary_key, sort_rows, concatenate, duplicate,
                           delete_resource, join_with_self, update_resource, update_schema, sources, conditional, Flow)
    C = {}

    def add(label, mk, other, props):
        C[label] = (mk, other, set(props))
    add('add_computed_field.sum', lambda: [add_computed_field(target='t', operation='sum', source=['id', 'id'])],
        lambda: [add_computed_field(target='u', operation='constant', with_='c')], ['C02', 'C15'])
    spec = [dict(target='c1', operation='constant', with_='A'), dict(target='c2', operation='format', with_='{id}-B')]
    add('add_computed_field.list', lambda: [add_computed_field(copy.deepcopy(spec))],
        lambda: [add_computed_field(target='u', operation='constant', with_='c')], ['C02', 'C15'])
    add('add_field', lambda: [add_field('nf', 'integer', 7)], lambda: [add_field('zz', 'string', 'q')], ['C02', 'C15'])
    add('delete_fields', lambda: [delete_fields(['k'])], lambda: [delete_fields(['id'])], ['C02', 'C15'])
    add('select_fields', lambda: [select_fields(['id', 'k'])], lambda: [select_fields(['k'])], ['C02', 'C15'])
    add('rename_fields', lambda: [rename_fields({'k': 'key'})], lambda: [rename_fields({'id': 'ident'})], ['C02', 'C15'])
    fr = [dict(name='s', patterns=[dict(find='v', replace='V')])]
    add('find_replace', lambda: [find_replace(copy.deepcopy(fr), resources='res_1')],
        lambda: [find_replace([dict(name='s', patterns=[dict(find='w', replace='-')])], resources='res_1')], ['C15'])
    extra_keys = [dict(name='what', type='string')]
    add('unpivot', lambda: [unpivot([dict(name='n', keys=dict(what='n'))], copy.deepcopy(extra_keys), dict(name='val', type='number'),
                                    resources='res_1')],
        lambda: [unpivot([dict(name='id', keys=dict(what='id'))], [dict(name='what', type='string')], dict(name='val', type='integer'),
                         resources='res_1')], ['C02', 'C17'])
    add('set_type.default-last', lambda: [set_type('id', type='number')], lambda: [set_type('k', type='string', resources=0)],
        ['C02', 'C10', 'C14'])
    add('set_type.index', lambda: [set_type('id', type='number', resources=1)], lambda: [set_type('id', type='string', resources=0)],
        ['C02', 'C10', 'C14'])
    add('validate', lambda: [validate()], lambda: [validate(resources=0)], ['C14'])
    add('filter_rows', lambda: [filter_rows(equals=[{'k': 'a'}])], lambda: [filter_rows(not_equals=[{'k': 'a'}])], ['C10', 'C17'])
    add('deduplicate', lambda: [set_primary_key(['k']), deduplicate()], lambda: [set_primary_key(['id']), deduplicate()], ['C10', 'C17'])
    add('sort_rows.number', lambda: [sort_rows('{id}')], lambda: [sort_rows('{id:>12}'), sort_rows('{k}{id:08}')], ['C10', 'C12'])
    add('sort_rows.reverse', lambda: [sort_rows('{k}', reverse=True)], lambda: [sort_rows('{k}')], ['C12'])
    add('concatenate', lambda: [concatenate({'id': [], 'k': ['key']}, dict(name='both'))],
        lambda: [concatenate({'k': []}, dict(name='other'))], ['C02', 'C10', 'C16'])
    add('duplicate', lambda: [duplicate()], lambda: [duplicate('res_2')], ['C02', 'C10', 'C16'])
    add('delete_resource.index', lambda: [delete_resource(-1)], lambda: [delete_resource(0)], ['C02', 'C10', 'C16'])
    add('join_with_self', lambda: [join_with_self('res_1', ['k'], {'k': None, 'cnt': {'aggregate': 'count'}})],
        lambda: [join_with_self('res_2', ['k'], {'k': None, 'm': {'name': 'id', 'aggregate': 'max'}})], ['C11'])
    from dataflows import join
    add('join.wildcard', lambda: [join('res_1', ['k'], 'res_2', ['k'], fields={'*': None, 'cnt': {'aggregate': 'count'}})],
        lambda: [join('res_2', ['k'], 'res_1', ['k'], fields={'m': {}})], ['C02', 'C11'])
    add('update_resource', lambda: [update_resource(-1, title='T')], lambda: [update_resource(0, title='Z')], ['C10', 'C16'])
    add('update_schema', lambda: [update_schema(-1, missingValues=['', 'NA'])], lambda: [update_schema(0, missingValues=['x'])], ['C10'])
    add('set_primary_key', lambda: [set_primary_key(['id'])], lambda: [set_primary_key(['k'], resources=0)], ['C10'])
    add('sources', lambda: [sources([{'q': i} for i in range(150)], [{'w': 1}])], lambda: [sources([{'e': 2}])], ['C02', 'C16'])
    add('conditional', lambda: [conditional(lambda dp: True, lambda dp: Flow(add_field('n_' + dp.descriptor['resources'][-1]['name'],
                                                                                       'integer', len(dp.descriptor['resources']))))],
        lambda: [conditional(lambda dp: False, Flow(add_field('never', 'string', '')))], ['C01'])
    return C


def _norm(got):
    if got[0] != 'ok':
        return got[:2]
    res, dp, _ = got[1]
    return ('ok', res, dp.descriptor)


def nat_second_use_for(prop):
    def nat_second_use(h):
        from dataflows import Flow
        for label, (mk, other, props) in sorted(catalogue().items()):
            if prop not in props:
                continue
            fn = 'second-use/' + label
            fresh1 = _norm(h.run(lambda: Flow(*data1(), *mk()).results()))
            fresh2 = _norm(h.run(lambda: Flow(*data2(), *mk()).results()))
            if fresh1[0] != 'ok' or fresh2[0] != 'ok':
                h.check(False, fn, (label, 'fresh'), 'a fresh step runs', (fresh1[:2] if fresh1[0] != 'ok' else fresh2[:2]))
                continue
            # A: one step object, two packages
            steps = mk()
            a1 = _norm(h.run(lambda: Flow(*data1(), *steps).results()))
            a2 = _norm(h.run(lambda: Flow(*data2(), *steps).results()))
            h.check(a1 == fresh1, fn, (label, 'A: first use'), fresh1[1:], a1[1:])
            h.check(a2 == fresh2 or a2[0] != 'ok', fn, (label, 'A: the same step object on another package'), fresh2[1:], a2[1:])
            # B: one Flow object, two runs
            f = Flow(*data2(), *mk())
            b1 = _norm(h.run(lambda: f.results()))
            b2 = _norm(h.run(lambda: f.results()))
            h.check(b1 == fresh2, fn, (label, 'B: first run'), fresh2[1:], b1[1:])
            h.check(b2 == fresh2 or b2[0] != 'ok', fn, (label, 'B: the same Flow object run again'), fresh2[1:], b2[1:])
            # C: other steps of the same kind built and run in between
            steps = mk()
            others = other()
            h.run(lambda: Flow(*data1(), *others).results())
            c = _norm(h.run(lambda: Flow(*data2(), *steps).results()))
            h.check(c == fresh2, fn, (label, 'C: other steps of the kind built and run in between'), fresh2[1:], c[1:])
            # D: a failed run first (a later step fails after two rows of the last resource)
            state = {'fail': True, 'seen': 0}

            def bomb(rows):
                for r in rows:
                    state['seen'] += 1
                    if state['fail'] and state['seen'] > 2:
                        raise RuntimeError('planned failure')
                    yield r
            f = Flow(*data2(), *mk(), bomb)
            d0 = h.run(lambda: f.results())
            state['fail'] = False
            d = _norm(h.run(lambda: f.results()))
            h.check(d == fresh2 or d[0] != 'ok', fn, (label, 'D: the same Flow object after a failed run', d0[0]), fresh2[1:], d[1:])
            # E: descriptor looked at through datastream(), then results()
            f = Flow(*data2(), *mk())
            h.run(lambda: f.datastream().dp.descriptor)
            e = _norm(h.run(lambda: f.results()))
            h.check(e == fresh2 or e[0] != 'ok', fn, (label, 'E: datastream() peeked at, then results()'), fresh2[1:], e[1:])
    nat_second_use.__name__ = 'nat_second_use'
    return nat_second_use
