"""Bounded checks of RECORDED FINDINGS (known_findings.json): genuine deviations of datahq/dataflows from a property that were
reproduced against the real code and are recorded rather than repaired (the repair is not a small patch, lives in a dependency,
or changes documented behaviour).  Every check states what the property demands; on the pinned tree it fails, the failure is
matched by its entry in known_findings.json (`native` pattern = <item>.<test>/<label>) and reported as KNOWN-FINDING; any other
failure of the same property is still a violation.  Bounded, under the repository's interpreter; never counted as proved."""
import contextlib
import json
import os
import shutil
import tempfile


@contextlib.contextmanager
def finding(h, label):
    old = h.cur
    h.cur = old + '/' + label
    try:
        yield
    finally:
        h.cur = old


@contextlib.contextmanager
def tmpdir(prefix):
    d = tempfile.mkdtemp(prefix=prefix)
    try:
        yield d
    finally:
        shutil.rmtree(d, ignore_errors=True)


def _head(n):
    import itertools

    def head(rows):
        yield from itertools.islice(rows, n)
    return head


# ------------------------------------------------------------------------------------------------ C05

def nat_findings_c05(h):
    from dataflows import Flow, dump_to_path, set_type
    with tmpdir('kf05_') as d:
        # the rows a later step sees are the rows that entered the dumper (the dumper's own validator casts them in place)
        with finding(h, 'dumper-casts-rows-downstream'):
            seen = []

            def look(row):
                seen.append(type(row['x']).__name__)
            got = h.run(lambda: Flow([{'x': 1.5}, {'x': 2.5}], dump_to_path(os.path.join(d, 'a')), look).process())
            h.check(got[0] == 'ok' and seen == ['float', 'float'], 'dataflows/processors/dumpers/dumper_base.py::DumperBase.process_resources',
                    "rows [{'x': 1.5}, {'x': 2.5}] (python floats) through dump_to_path", "downstream sees floats, as without the dumper", seen)
        # the schema a later step sees is the schema that entered the dumper (prepare_resource stamps the output dialect on it)
        with finding(h, 'dumper-rewrites-schema-downstream'):
            seen = {}

            def look_pkg(package):
                seen['tv'] = package.pkg.descriptor['resources'][0]['schema']['fields'][0].get('trueValues')
                yield package.pkg
                yield from package
            got = h.run(lambda: Flow([{'b': True}], set_type('b', type='boolean', trueValues=['yes'], falseValues=['no']),
                                     dump_to_path(os.path.join(d, 'b')), look_pkg).process())
            h.check(got[0] == 'ok' and seen.get('tv') == ['yes'], 'dataflows/processors/dumpers/file_dumper.py::FileDumper.process_datapackage',
                    "boolean field declared with trueValues ['yes']", "downstream schema still says ['yes']", seen.get('tv'))


# ------------------------------------------------------------------------------------------------ early stop of a later step

def nat_findings_c19(h):
    from dataflows import Flow, dump_to_path
    with tmpdir('kf19_') as d:
        with finding(h, 'descriptor-without-data-file-when-a-later-step-stops-early'):
            out = os.path.join(d, 'o')
            got = h.run(lambda: Flow([{'a': i} for i in range(5)], dump_to_path(out), _head(2)).process())
            ok = True
            note = 'no descriptor'
            if os.path.exists(os.path.join(out, 'datapackage.json')):
                desc = json.load(open(os.path.join(out, 'datapackage.json')))
                missing = [r['path'] for r in desc['resources'] if not os.path.exists(os.path.join(out, r['path']))]
                ok = not missing
                note = 'descriptor lists %r, missing on disk: %r' % ([r['path'] for r in desc['resources']], missing)
            h.check(ok, 'dataflows/processors/dumpers/dumper_base.py::DumperBase.process_resources',
                    '5 rows, dump_to_path, then a step that reads only 2 rows of the resource', 'descriptor present => every listed file exists', note)


def nat_findings_c08(h):
    from dataflows import Flow, checkpoint
    with tmpdir('kf08_') as d:
        with finding(h, 'truncated-checkpoint-when-a-later-step-stops-early'):
            a, b = [{'a': i} for i in range(10)], [{'b': i} for i in range(6)]
            h.run(lambda: Flow(a, b, checkpoint('cp', checkpoint_path=d), _head(4)).process())
            got = h.run(lambda: [len(x) for x in Flow(a, b, checkpoint('cp', checkpoint_path=d)).results()[0]])
            h.check(got[0] == 'ok' and got[1] == [10, 6], 'dataflows/processors/stream.py::stream.func',
                    'resources of 10 and 6 rows, checkpoint, then a step that reads only 4 rows of each',
                    'a checkpoint that is picked up is complete: [10, 6]', got[1] if got[0] == 'ok' else got[:2])


def nat_findings_c07(h):
    from dataflows import Flow, checkpoint
    with tmpdir('kf07_') as d:
        with finding(h, 'resumed-run-differs-when-a-later-step-stops-at-the-last-row'):
            a, b = [{'a': i} for i in range(5)], [{'b': i} for i in range(3)]
            runs = []
            for _run in range(2):
                got = h.run(lambda: [len(x) for x in Flow(a, b, checkpoint('cp', checkpoint_path=d), _head(5)).results()[0]])
                runs.append(got[1] if got[0] == 'ok' else got[:2])
            h.check(runs[0] == runs[1] == [5, 3], 'dataflows/processors/unstream.py::unstream.res_reader',
                    'resources of 5 and 3 rows, checkpoint, then a step taking the first 5 rows of each', 'both runs [5, 3]', runs)


# ------------------------------------------------------------------------------------------------ C09

def nat_findings_c09(h):
    from dataflows import Flow, dump_to_path, update_resource
    with tmpdir('kf09_') as d:
        with finding(h, 'excel-bytes-zero'):
            out = os.path.join(d, 'x')
            got = h.run(lambda: Flow([{'a': i, 'b': 'v%d' % i} for i in range(3)], dump_to_path(out, format='xlsx')).process())
            ok, note = False, got[:2]
            if got[0] == 'ok':
                rd = json.load(open(os.path.join(out, 'datapackage.json')))['resources'][0]
                size = os.path.getsize(os.path.join(out, rd['path']))
                ok, note = rd.get('bytes') == size, ('recorded bytes', rd.get('bytes'), 'file size', size)
            h.check(ok, 'dataflows/processors/dumpers/file_dumper.py::FileDumper.rows_processor', "format='xlsx'", 'recorded bytes == file size', note)
        with finding(h, 'paths-differing-only-in-the-last-suffix-collapse'):
            out = os.path.join(d, 'y')
            got = h.run(lambda: Flow([{'a': 1}, {'a': 2}, {'a': 3}], update_resource(-1, name='r2019', path='report.2019'),
                                     [{'b': 9}], update_resource(-1, name='r2020', path='report.2020'),
                                     dump_to_path(out, format='json')).process())
            ok, note = False, got[:2]
            if got[0] == 'ok':
                rs = json.load(open(os.path.join(out, 'datapackage.json')))['resources']
                paths = [r['path'] for r in rs]
                sizes = [os.path.getsize(os.path.join(out, p)) if os.path.exists(os.path.join(out, p)) else None for p in paths]
                ok = len(set(paths)) == 2 and sizes == [r.get('bytes') for r in rs]
                note = (paths, 'recorded bytes', [r.get('bytes') for r in rs], 'on disk', sizes)
            h.check(ok, 'dataflows/processors/dumpers/formats/format_json.py::JSONFormat.prepare_resource', "paths 'report.2019' / 'report.2020', format json",
                    'two files, each with its recorded size', note)


# ------------------------------------------------------------------------------------------------ C20

def nat_findings_c20(h):
    import decimal
    from sqlalchemy import create_engine, text
    from dataflows import Flow, dump_to_sql, set_type
    with tmpdir('kf20_') as d:
        with finding(h, 'update-mode-number-key-with-bloom-filter'):
            eng = create_engine('sqlite:///' + os.path.join(d, 'a.sqlite'))
            conf = {'t': {'resource-name': 'res_1', 'mode': 'update', 'update_keys': ['k']}}
            for rows in ([{'k': 1.5, 'v': 'old'}, {'k': 2.5, 'v': 'x'}], [{'k': 1.5, 'v': 'new'}, {'k': 3.5, 'v': 'y'}]):
                got = h.run(lambda: Flow([dict(r) for r in rows], set_type('k', type='number'), dump_to_sql(conf, engine=eng)).process())
            with eng.connect() as c:
                db = sorted((float(k), v) for k, v in c.execute(text('select k, v from t')))
            h.check(got[0] == 'ok' and db == [(1.5, 'new'), (2.5, 'x'), (3.5, 'y')], 'dataflows/processors/dumpers/to_sql.py::SQLDumper.process_resource',
                    'two update dumps keyed on a number column (default use_bloom_filter=True)', [(1.5, 'new'), (2.5, 'x'), (3.5, 'y')], db)
        with finding(h, 'array-and-object-cells-rewritten-downstream'):
            eng = create_engine('sqlite:///' + os.path.join(d, 'b.sqlite'))
            rows = [{'id': 1, 'arr': [1, {'a': None}], 'obj': {'x': [1, 2]}}, {'id': 2, 'arr': None, 'obj': None}]
            got = h.run(lambda: Flow([dict(r) for r in rows], set_type('arr', type='array'), set_type('obj', type='object'),
                                     dump_to_sql({'t': {'resource-name': 'res_1'}}, engine=eng)).results(on_error=None)[0][0])
            h.check(got[0] == 'ok' and got[1] == rows, 'dataflows/processors/dumpers/to_sql.py::SQLDumper.normalize_for_engine',
                    'rows with array / object cells', 'rows continue downstream unchanged', got[1] if got[0] == 'ok' else got[:2])


# ------------------------------------------------------------------------------------------------ C11

def nat_findings_c11(h):
    from dataflows import Flow, join
    with finding(h, 'full-outer-with-a-format-spec-in-the-key'):
        src = [{'k': 1, 'v': 'a'}, {'k': 3, 'v': 'c'}]
        tgt = [{'k': 1, 'w': 'x'}]
        got = h.run(lambda: Flow([dict(r) for r in src], [dict(r) for r in tgt],
                                 join('res_1', '{k:03}', 'res_2', '{k:03}', fields={'v': {}}, mode='full-outer')).results(on_error=None)[0][-1])
        want = [{'k': 1, 'w': 'x', 'v': 'a'}, {'k': 3, 'w': None, 'v': 'c'}]
        norm = lambda rows: [{k: r.get(k) for k in ('k', 'w', 'v')} for r in rows] if isinstance(rows, list) else rows
        h.check(got[0] == 'ok' and norm(got[1]) == want and all(set(r) <= {'k', 'w', 'v'} for r in got[1]),
                'dataflows/processors/join.py::KeyCalc.__init__', "keys '{k:03}' on both sides, mode full-outer, one unmatched source row",
                want, got[1] if got[0] == 'ok' else got[:2])


# ------------------------------------------------------------------------------------------------ C13

def nat_findings_c13(h):
    import csv
    from dataflows import Flow, load
    with tmpdir('kf13_') as d:
        with finding(h, 'quote-character-guessed'):
            p = os.path.join(d, 'words.csv')
            header, rows = ['word', 'meaning'], [["'tis", 'it is'], ["'twas", 'it was'], ["rock 'n' roll", 'music']]
            with open(p, 'w', newline='', encoding='utf-8') as f:
                w = csv.writer(f, lineterminator='\n')
                w.writerow(header)
                w.writerows(rows)
            got = h.run(lambda: Flow(load(p, strip=False, infer_strategy=load.INFER_STRINGS, cast_strategy=load.CAST_TO_STRINGS)).results()[0][0])
            want = [dict(zip(header, r)) for r in rows]
            h.check(got[0] == 'ok' and got[1] == want, 'dataflows/processors/load.py::load.safe_process_datapackage',
                    'RFC-4180 file whose cells contain apostrophes', want, got[1] if got[0] == 'ok' else got[:2])
        with finding(h, 'cr-and-crlf-inside-a-cell-become-lf'):
            p = os.path.join(d, 'cells.csv')
            header, rows = ['a', 'b'], [['line1\r\nline2', 'x'], ['p\rq', 'y']]
            with open(p, 'w', newline='', encoding='utf-8') as f:
                w = csv.writer(f)
                w.writerow(header)
                w.writerows(rows)
            got = h.run(lambda: Flow(load(p, strip=False, infer_strategy=load.INFER_STRINGS, cast_strategy=load.CAST_TO_STRINGS)).results()[0][0])
            want = [dict(zip(header, r)) for r in rows]
            h.check(got[0] == 'ok' and got[1] == want, 'dataflows/processors/load.py::load.safe_process_datapackage',
                    'quoted cells holding CRLF / CR, strip=False', want, got[1] if got[0] == 'ok' else got[:2])


        with finding(h, 'initial-space-sniffed'):
            p = os.path.join(d, 'pad.csv')
            header, rows = ['h0', 'h1'], [['x', 'y'], ['line\nbreak', ' pad ']]
            with open(p, 'w', newline='', encoding='utf-8') as f:
                w = csv.writer(f)
                w.writerow(header)
                w.writerows(rows)
            got = h.run(lambda: Flow(load(p, strip=False, infer_strategy=load.INFER_STRINGS, cast_strategy=load.CAST_TO_STRINGS)).results()[0][0])
            want = [dict(zip(header, r)) for r in rows]
            h.check(got[0] == 'ok' and got[1] == want, 'dataflows/processors/load.py::load.safe_process_datapackage',
                    'a quoted cell followed by ", pad ": blanks that open a cell, strip=False', want, got[1] if got[0] == 'ok' else got[:2])


# ------------------------------------------------------------------------------------------------ C14

def nat_findings_c14(h):
    from dataflows import Flow, load, set_type
    from dataflows.base.schema_validator import drop
    with tmpdir('kf14_') as d:
        with finding(h, 'cast-failing-with-another-exception-bypasses-on_error'):
            p = os.path.join(d, 'x.csv')
            with open(p, 'w') as f:
                f.write('id,v\n1,1.0\n2,Infinity\n3,3.0\n')
            got = h.run(lambda: Flow(load(p), set_type('id', type='integer'), set_type('v', type='number'),
                                     set_type('v', type='integer', on_error=drop)).results(on_error=None)[0][0])
            want = [{'id': 1, 'v': 1}, {'id': 3, 'v': 3}]
            h.check(got[0] == 'ok' and got[1] == want, 'dataflows/base/schema_validator.py::schema_validator',
                    "number column holding Infinity retyped to integer with on_error=drop", want, got[1] if got[0] == 'ok' else got[:2])


# ------------------------------------------------------------------------------------------------ C17

def nat_findings_c17(h):
    from dataflows import Flow, set_type, set_primary_key, deduplicate
    with finding(h, 'unhashable-primary-key-values'):
        rows = [{'k': [1, 2], 'v': 1}, {'k': [1, 2], 'v': 2}, {'k': [3], 'v': 3}]
        got = h.run(lambda: Flow([dict(r) for r in rows], set_type('k', type='array'), set_primary_key(['k']), deduplicate()).results(on_error=None)[0][0])
        want = [rows[0], rows[2]]
        h.check(got[0] == 'ok' and got[1] == want, 'dataflows/processors/deduplicate.py::deduper', 'primary key field of type array', want,
                got[1] if got[0] == 'ok' else got[:2])


# ------------------------------------------------------------------------------------------------ C16 / C10

def nat_findings_c16(h):
    from dataflows import Flow, sources, delete_resource
    with finding(h, 'sources-gives-every-sub-flow-the-same-auto-names'):
        a, b = [{'a': 1}, {'a': 2}], [{'b': 1}]
        got = h.run(lambda: Flow(sources(a, b), delete_resource(1)).results())
        ok = got[0] == 'ok' and got[1][0] == [a]
        h.check(ok, 'dataflows/processors/sources.py::sources.process_datapackage', 'Flow(sources(A, B), delete_resource(1))',
                'A survives with its rows; names are unique', ([r['name'] for r in got[1][1].descriptor['resources']], got[1][0]) if got[0] == 'ok' else got[:2])


# ------------------------------------------------------------------------------------------------ C04 / C18 (parallelize)

def _double(row):
    if row['a'] == 5:
        raise ValueError('row function failed on a == 5')
    row['a'] = row['a'] * 2


def nat_findings_parallelize_errors(h):
    from dataflows import Flow, parallelize
    with finding(h, 'parallelize-swallows-errors-of-its-row-function'):
        got = h.run(lambda: Flow([{'a': i} for i in range(10)], parallelize(_double, num_processors=2)).results(on_error=None)[0][0])
        h.check(got[0] == 'exc', 'dataflows/processors/parallelize.py::work', 'row function raising ValueError on one of 10 rows',
                'the run fails (ProcessorError caused by the ValueError)', ('returned normally', sorted(r['a'] for r in got[1])) if got[0] == 'ok' else got[:2])


_seen_keys = set()


def _first_of_key(row):
    # history dependent: true for the first row of each key only
    k = row['k']
    if k in _seen_keys:
        return False
    _seen_keys.add(k)
    return True


def _mark(row):
    row['marked'] = True


def nat_findings_c18(h):
    from dataflows import Flow, parallelize
    with finding(h, 'predicate-evaluated-twice-on-the-first-selected-row'):
        _seen_keys.clear()
        rows = [{'k': 'a', 'marked': False}, {'k': 'b', 'marked': False}, {'k': 'a', 'marked': False}]
        got = h.run(lambda: Flow([dict(r) for r in rows], parallelize(_mark, num_processors=1, predicate=_first_of_key)).results(on_error=None)[0][0])
        want = sorted([('a', True), ('b', True), ('a', False)])
        h.check(got[0] == 'ok' and sorted((r['k'], r['marked']) for r in got[1]) == want, 'dataflows/processors/parallelize.py::fork',
                'predicate "first row of each key" (history dependent)', want, sorted((r['k'], r['marked']) for r in got[1]) if got[0] == 'ok' else got[:2])
