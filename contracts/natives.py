"""contracts/natives.py -- bounded end-to-end checks on real Flows (run under /venv/bin/python by harness/native.py).
They are the labelled *bounded* stand-in next to the proofs: observer transparency (C05), look-ahead (C06),
dump statistics (C09), crash points of a dump (C19)."""
import json
import os
import shutil
import tempfile


# ------------------------------------------------------------------------------------------------ C05

def nat_observers(h):
    from dataflows import (Flow, printer, dump_to_path, dump_to_zip, stream, checkpoint, finalizer, update_stats, validate,
                           delete_resource, filter_rows, join, concatenate, load, unstream)
    for _ in range(h.n(30, 300)):
        nres = h.rng.randint(1, 3)
        # (now and then one resource is longer than any write batch of a dumper: 1000 + a few rows)
        big = h.rng.randint(0, nres - 1) if _ % 6 == 5 else None
        data = [[{'id': i, 'v': 'r%d_%d' % (k, i)} for i in range(1203 if k == big else h.rng.randint(0, 5))] for k in range(nres)]
        d = tempfile.mkdtemp(prefix='c05_')
        fired = []
        try:
            kind = h.rng.choice(['printer', 'printer-sel', 'dump_to_path', 'dump_to_zip', 'stream', 'checkpoint', 'finalizer',
                                 'update_stats', 'validate', 'dump_to_path-json', 'validate']) if big is None else \
                h.rng.choice(['dump_to_path', 'dump_to_path-json', 'dump_to_zip', 'stream', 'checkpoint', 'printer'])
            # (every resource may declare `id` as its primary key: the key values recur from resource to resource, never within one)
            keyed = h.rng.random() < 0.5
            obs = {
                'printer': lambda: printer(num_rows=h.rng.randint(1, 3), last_rows=h.rng.choice([None, 1, 2])),
                'printer-sel': lambda: printer(resources='res_1'),
                'dump_to_path': lambda: dump_to_path(os.path.join(d, 'dump')),
                'dump_to_path-json': lambda: dump_to_path(os.path.join(d, 'dump'), format='json'),
                'dump_to_zip': lambda: dump_to_zip(os.path.join(d, 'dump.zip')),
                'stream': lambda: stream(os.path.join(d, 's', 'out.ndjson')),
                'checkpoint': lambda: checkpoint('cp', checkpoint_path=d),
                'finalizer': lambda: finalizer(lambda: fired.append(1)),
                'update_stats': lambda: update_stats({'k': 1}),
                'validate': lambda: validate(),
            }[kind]
            suffix_kind = h.rng.choice(['none', 'delete_last', 'delete_first', 'filter_all', 'concat'])
            suffix = {
                'none': [],
                'delete_last': [delete_resource(-1)],
                'delete_first': [delete_resource(0)],
                'filter_all': [filter_rows(lambda r: False)],
                'concat': [concatenate(dict(id=[], v=[]), dict(name='all'))],
            }[suffix_kind]

            def mk(extra):
                from dataflows import set_primary_key
                return Flow(*[[dict(r) for r in rs] for rs in data], *([set_primary_key(['id'], resources=None)] if keyed else []), *extra)
            ref = h.run(lambda: mk(suffix).results())
            got = h.run(lambda: mk([obs()] + suffix).results())
            if ref[0] != 'ok':
                continue
            ok = got[0] == 'ok' and got[1][0] == ref[1][0] and \
                [r['schema'] for r in got[1][1].descriptor['resources']] == [r['schema'] for r in ref[1][1].descriptor['resources']]
            h.check(ok, 'observer:' + kind, (kind, suffix_kind, data), 'downstream unchanged', (got[0], got[1][0] if got[0] == 'ok' else got[1]))
            if got[0] != 'ok':
                continue
            # what the observer captured = the full stream at its position
            if kind in ('dump_to_path', 'dump_to_path-json'):
                back = h.run(lambda: Flow(load(os.path.join(d, 'dump', 'datapackage.json'))).results()[0])
                h.check(back[0] == 'ok' and back[1] == data, 'observer:dump_to_path', (suffix_kind, data), data, back[:2])
            elif kind == 'dump_to_zip':
                back = h.run(lambda: Flow(load(os.path.join(d, 'dump.zip'), format='datapackage')).results()[0])
                h.check(back[0] == 'ok' and back[1] == data, 'observer:dump_to_zip', (suffix_kind, data), data, back[:2])
            elif kind == 'stream':
                back = h.run(lambda: Flow(unstream(os.path.join(d, 's', 'out.ndjson'))).results()[0])
                h.check(back[0] == 'ok' and back[1] == data, 'observer:stream', (suffix_kind, data), data, back[:2])
            elif kind == 'checkpoint':
                back = h.run(lambda: Flow(checkpoint('cp', checkpoint_path=d)).results()[0])
                h.check(back[0] == 'ok' and back[1] == data, 'observer:checkpoint', (suffix_kind, data), data, back[:2])
            elif kind == 'finalizer':
                h.check(fired == [1], 'observer:finalizer', (suffix_kind, data), 'fires exactly once', fired)
        finally:
            shutil.rmtree(d, ignore_errors=True)
    # deterministic: every persisting observer x every downstream suffix that discards or merges resources, on a fixed package of
    # three resources: what was persisted reads back as the full stream at the observer's position
    fixed = [[{'id': i, 'v': 'r%d_%d' % (k, i)} for i in range(n)] for k, n in enumerate((3, 4, 2))]
    for okind in ('dump_to_path', 'dump_to_zip', 'stream', 'checkpoint'):
        for skind in ('none', 'delete_last', 'delete_first', 'filter_all', 'concat'):
            d = tempfile.mkdtemp(prefix='c05D_')
            try:
                obs = {'dump_to_path': lambda: dump_to_path(os.path.join(d, 'dump')), 'dump_to_zip': lambda: dump_to_zip(os.path.join(d, 'dump.zip')),
                       'stream': lambda: stream(os.path.join(d, 's', 'out.ndjson')), 'checkpoint': lambda: checkpoint('cp', checkpoint_path=d)}[okind]
                suffix = {'none': [], 'delete_last': [delete_resource(-1)], 'delete_first': [delete_resource(0)],
                          'filter_all': [filter_rows(lambda r: False)], 'concat': [concatenate(dict(id=[], v=[]), dict(name='all'))]}[skind]
                got = h.run(lambda: Flow(*[[dict(r) for r in rs] for rs in fixed], obs(), *suffix).results())
                back = h.run(lambda: Flow({'dump_to_path': lambda: load(os.path.join(d, 'dump', 'datapackage.json')),
                                           'dump_to_zip': lambda: load(os.path.join(d, 'dump.zip'), format='datapackage'),
                                           'stream': lambda: unstream(os.path.join(d, 's', 'out.ndjson')),
                                           'checkpoint': lambda: checkpoint('cp', checkpoint_path=d)}[okind]()).results()[0])
                h.check(got[0] == 'ok' and back[0] == 'ok' and back[1] == fixed, 'observer:' + okind, ('fixed package', okind, skind), fixed,
                        (got[0], back[1] if back[0] == 'ok' else back[:2]))
            finally:
                shutil.rmtree(d, ignore_errors=True)
    # deterministic: resources longer than any write batch (1000) through every persisting observer and format; key values that
    # recur from resource to resource (each resource has its OWN primary key) through validate
    from dataflows import set_primary_key
    from dataflows.base.schema_validator import drop as _drop
    long_data = [[{'id': i, 'v': 'a%d' % i} for i in range(2105)], [{'id': i, 'v': 'b%d' % i} for i in range(3)]]
    for kind in ('path-csv', 'path-json', 'zip-json', 'stream'):
        d = tempfile.mkdtemp(prefix='c05L_')
        try:
            obs = {'path-csv': lambda: dump_to_path(os.path.join(d, 'o')), 'path-json': lambda: dump_to_path(os.path.join(d, 'o'), format='json'),
                   'zip-json': lambda: dump_to_zip(os.path.join(d, 'o.zip'), format='json'), 'stream': lambda: stream(os.path.join(d, 's.ndjson'))}[kind]
            got = h.run(lambda: Flow(*[[dict(r) for r in rs] for rs in long_data], obs()).results()[0])
            back = h.run(lambda: Flow(unstream(os.path.join(d, 's.ndjson')) if kind == 'stream' else
                                      load(os.path.join(d, 'o.zip'), format='datapackage') if kind == 'zip-json' else
                                      load(os.path.join(d, 'o', 'datapackage.json'))).results()[0])
            h.check(got[0] == 'ok' and got[1] == long_data and back[0] == 'ok' and back[1] == long_data, 'observer:' + kind, ('2105 + 3 rows', kind),
                    'downstream unchanged; what was persisted reads back complete', (got[0], back[0], [len(x) for x in back[1]] if back[0] == 'ok' else back[1]))
        finally:
            shutil.rmtree(d, ignore_errors=True)
    keyed_data = [[{'id': i, 'v': 'a%d' % i} for i in range(4)], [{'id': i, 'v': 'b%d' % i} for i in (2, 3, 4)], [{'id': 3, 'v': 'c'}]]
    for policy in (None, _drop):
        got = h.run(lambda: Flow(*[[dict(r) for r in rs] for rs in keyed_data], set_primary_key(['id'], resources=None),
                                 validate(**({'on_error': policy} if policy else {}))).results()[0])
        h.check(got[0] == 'ok' and got[1] == keyed_data, 'observer:validate', ('key values recurring across resources', policy and 'drop'),
                keyed_data, got[1] if got[0] == 'ok' else got[:2])
    # finalizer callbacks of every accepted shape, succeeding or failing AFTER their side effect (a TypeError of their own
    # included): fired exactly once per pass of the stream; a failing callback fails the run
    from dataflows import delete_resource
    for shape in ('plain', 'stats', 'stats-default', 'kwargs'):
        for fail in (None, TypeError, ValueError):
            fired = []

            def body(stats=None):
                fired.append(1)
                if fail is not None:
                    raise fail('callback failed after doing its work')
            cb = {'plain': lambda: body(), 'stats': lambda stats: body(stats), 'stats-default': lambda stats={}: body(stats),
                  'kwargs': lambda **kw: body(kw.get('stats'))}[shape]
            got = h.run(lambda: Flow([{'a': 1}, {'a': 2}], [{'b': 1}], finalizer(cb), delete_resource('res_2')).process())
            h.check(fired == [1] and (got[0] == 'ok') == (fail is None), 'observer:finalizer', (shape, fail and fail.__name__),
                    'fires exactly once; the run fails iff the callback fails', (fired, got[:2]))


# ------------------------------------------------------------------------------------------------ C06

def nat_lookahead(h):
    """rows pulled from the source ahead of the row being delivered, for non-buffering pipelines; bound = sample size + 1"""
    from dataflows import (Flow, printer, dump_to_path, stream, checkpoint, validate, set_type, filter_rows, add_computed_field,
                           delete_fields, select_fields, rename_fields, find_replace, unpivot, concatenate, update_resource,
                           add_field)
    BOUND = 100 + 2
    d = tempfile.mkdtemp(prefix='c06_')
    try:
        stages = {
            'printer': lambda: printer(),
            'printer-last_rows': lambda: printer(num_rows=2, last_rows=5),
            'printer-unselected': lambda: printer(resources='nope'),
            'dump_to_path': lambda: dump_to_path(os.path.join(d, 'o%d' % h.rng.randint(0, 10 ** 6))),
            'stream': lambda: stream(os.path.join(d, 's%d' % h.rng.randint(0, 10 ** 6), 'x.ndjson')),
            'checkpoint': lambda: checkpoint('c%d' % h.rng.randint(0, 10 ** 6), checkpoint_path=d),
            'checkpoint-resources': lambda: checkpoint('c%d' % h.rng.randint(0, 10 ** 6), checkpoint_path=d,
                                                       resources=h.rng.choice(['res_1', ['res_1'], '.*', 0])),
            'validate': lambda: validate(),
            'set_type': lambda: set_type('a', type='integer'),
            'filter_rows': lambda: filter_rows(lambda r: r['a'] % 2 == 0),
            'add_computed_field': lambda: add_computed_field(target='c', operation='format', with_='{a}-{b}'),
            'add_field': lambda: add_field('z', 'string', 'k'),
            'delete_fields': lambda: delete_fields(['b']),
            'select_fields': lambda: select_fields(['a']),
            'rename_fields': lambda: rename_fields({'b': 'bb'}),
            'find_replace': lambda: find_replace([dict(name='b', patterns=[dict(find='x', replace='y')])]),
            'unpivot': lambda: unpivot([dict(name='b', keys=dict(k='b'))], [dict(name='k', type='string')], dict(name='v', type='string')),
            'concatenate': lambda: concatenate(dict(a=[], b=[])),
            'update_resource': lambda: update_resource(None, title='t'),
            'rows-fn': lambda: (lambda rows: (r for r in rows)),
            'row-fn': lambda: (lambda row: None),
        }
        names = sorted(stages)
        for t in range(h.n(len(names) + 6, 80)):
            if t < len(names):
                chosen = [names[t]]
            else:
                chosen = h.rng.sample(names, h.rng.randint(2, 4))
            N = h.rng.choice([300, 1000] if h.tier == 'quick' else [300, 3000, 20000])
            pulled = [0]
            worst = [0]

            shape = h.rng.choice(['dense', 'dense', 'late-column', 'empty-column'])

            def source():
                for i in range(N):
                    pulled[0] += 1
                    c = None if (shape == 'empty-column' or (shape == 'late-column' and i < 250)) else i
                    yield {'a': i, 'b': 'x%d' % i, 'c0': c}
            delivered = [0]

            def sink(rows):
                for r in rows:
                    delivered[0] += 1
                    worst[0] = max(worst[0], pulled[0] - delivered[0])
                    yield r
            steps = []
            for c in chosen:
                s = stages[c]()
                if c == 'row-fn':
                    def row(row):
                        return None
                    s = row
                elif c == 'rows-fn':
                    def rows(rows):
                        for r in rows:
                            yield r
                    s = rows
                steps.append(s)
            filt = 'filter_rows' in chosen
            got = h.run(lambda: Flow(source(), *steps, sink).process())
            if got[0] != 'ok':
                continue      # incompatible random combination of stages (e.g. a field renamed away): not a look-ahead case
            # with a filter in the pipeline delivered rows are a subsequence; measure against rows that passed
            ok = (worst[0] <= BOUND if not filt else worst[0] <= N // 2 + BOUND)
            h.check(ok, 'lookahead:' + '+'.join(chosen), (chosen, N, shape), 'look-ahead <= %d' % BOUND, (got[0], worst[0]))
        # a source that knows its length (a progress-bar wrapper, a lazy query result) and still produces its rows one by one
        for N in (300, 1500):
            pulled, delivered, worst = [0], [0], [0]

            class SizedLazy:
                def __len__(self):
                    return N

                def __iter__(self):
                    for i in range(N):
                        pulled[0] += 1
                        yield {'a': i, 'b': 'x%d' % i}

            def sink(rows):
                for r in rows:
                    delivered[0] += 1
                    worst[0] = max(worst[0], pulled[0] - delivered[0])
                    yield r
            got = h.run(lambda: Flow(SizedLazy(), set_type('a', type='integer'), sink).process())
            h.check(got[0] == 'ok' and worst[0] <= BOUND and delivered[0] == N, 'lookahead:sized-lazy-source', N, 'look-ahead <= %d' % BOUND,
                    (got[0], worst[0], delivered[0]))
        # leftover state: the same re-iterable source (and the same Flow object) used again after a run that FAILED on a value
        # deep in the stream (it does not fit the type inferred from the sample): the next run -- whether it fails again or not --
        # still streams
        for N in (1500, 6000):
            pulled, delivered, worst = [0], [0], [0]

            class Reiterable:
                def __iter__(self):
                    for i in range(N):
                        pulled[0] += 1
                        yield {'a': i, 'b': (i if i != N - 20 else 0.5)}

            def sink(rows):
                for r in rows:
                    delivered[0] += 1
                    worst[0] = max(worst[0], pulled[0] - delivered[0])
                    yield r
            src = Reiterable()
            f = Flow(src, sink)
            for attempt, flow in ((1, f), (2, f), (3, Flow(src, sink))):
                pulled[0], delivered[0], worst[0] = 0, 0, 0
                got = h.run(lambda: flow.process())
                h.check(worst[0] <= BOUND, 'lookahead:after-a-failed-run', (N, 'run %d' % attempt, got[0]), 'look-ahead <= %d' % BOUND,
                        (worst[0], delivered[0], pulled[0]))
        # histories / options the random stages do not reach
        from dataflows import load
        for case in ('load-limit_rows', 'checkpoint-after-an-interrupted-run', 'load-pair'):
            for N in ([400, 3000] if h.tier == 'quick' else [400, 3000, 30000]):
                pulled, delivered, worst = [0], [0], [0]

                def source():
                    for i in range(N):
                        pulled[0] += 1
                        yield {'a': i, 'b': 'x%d' % i}

                def sink(rows):
                    for r in rows:
                        delivered[0] += 1
                        worst[0] = max(worst[0], pulled[0] - delivered[0])
                        yield r
                desc = {'name': 'p', 'resources': [{'name': 'r', 'path': 'r.csv', 'schema': {'fields': [
                    {'name': 'a', 'type': 'integer'}, {'name': 'b', 'type': 'string'}]}}]}
                if case == 'load-limit_rows':
                    # a small limit, one in the middle of the data, and a "cap" far beyond it: the limit bounds what is delivered,
                    # it is not a licence to read that many rows ahead
                    for lim in (25, N // 2, 10 ** 6):
                        pulled[0], delivered[0] = 0, 0
                        got = h.run(lambda: Flow(load((desc, [source()]), limit_rows=lim), sink).process())
                        worst[0] = max(worst[0], pulled[0] - delivered[0])
                        h.check(got[0] == 'ok' and worst[0] <= BOUND and delivered[0] == min(lim, N), 'lookahead:' + case, (case, N, lim),
                                'look-ahead <= %d, %d rows delivered' % (BOUND, min(lim, N)), (got[:2], worst[0], delivered[0]))
                    continue
                elif case == 'load-pair':
                    got = h.run(lambda: Flow(load((desc, [source()])), sink).process())
                else:
                    cp = os.path.join(d, 'cpi%d' % N)
                    os.makedirs(os.path.join(cp, 'c'), exist_ok=True)
                    with open(os.path.join(cp, 'c', 'stream.ndjson.active'), 'w') as f:
                        f.write('{"leftover": "of a run that died while saving"}\n')
                    got = h.run(lambda: Flow(source(), checkpoint('c', checkpoint_path=cp), sink).process())
                # measured at every delivery AND once the run is over (rows read past the last delivered row count as well)
                worst[0] = max(worst[0], pulled[0] - delivered[0])
                h.check(got[0] == 'ok' and worst[0] <= BOUND, 'lookahead:' + case, (case, N), 'look-ahead <= %d' % BOUND, (got[:2], worst[0]))
    finally:
        shutil.rmtree(d, ignore_errors=True)


# ------------------------------------------------------------------------------------------------ C09

def nat_dump_stats(h):
    import hashlib
    import zipfile
    from dataflows import Flow, dump_to_path, dump_to_zip, DataStreamProcessor

    def get(o, p):
        for s in p.split('.'):
            o = o.get(s, {}) if isinstance(o, dict) else None
        return o
    for _ in range(h.n(30, 300)):
        nres = h.rng.randint(1, 3)
        data = [[{'id': i, 't': h.rng.choice(['é' * h.rng.randint(0, 3), 'a,b', 'x\ny', '', 'plain'])} for i in range(h.rng.randint(0, 4))]
                for _k in range(nres)]
        if nres > 1 and h.rng.random() < 0.3:
            data[1] = [dict(r) for r in data[0]]          # two resources with byte-identical output
        fmt = h.rng.choice(['csv', 'json'])
        zipped = h.rng.random() < 0.4
        hashpath = h.rng.random() < 0.4
        pretty = h.rng.random() < 0.5
        counters = {}
        ckind = h.rng.choice(['default', 'renamed', 'nested', 'disabled', 'no-bytes', 'no-hash', 'no-hash'])
        names = dict(rr='count_of_rows', rb='bytes', rh='hash', pr='count_of_rows', pb='bytes', ph='hash')
        if ckind == 'renamed':
            names = dict(rr='rows', rb='size', rh='md5', pr='total_rows', pb='total_size', ph='digest')
        elif ckind == 'nested':
            names = dict(rr='stats.rows', rb='stats.size', rh='stats.md5', pr='stats.rows', pb='stats.size', ph='stats.md5')
        if ckind in ('renamed', 'nested'):
            counters = {'resource-rowcount': names['rr'], 'resource-bytes': names['rb'], 'resource-hash': names['rh'],
                        'datapackage-rowcount': names['pr'], 'datapackage-bytes': names['pb'], 'datapackage-hash': names['ph']}
        elif ckind == 'disabled':
            counters = {'resource-rowcount': None, 'datapackage-hash': None}
        elif ckind == 'no-bytes':
            counters = {'resource-bytes': None, 'datapackage-bytes': None}
        elif ckind == 'no-hash':
            # sizes and row counts are recorded although no file hash is asked for (the size must not depend on the hashing pass)
            counters = {'resource-hash': None}       # (also together with add_filehash_to_path: no hash, so none in the path)
        d = tempfile.mkdtemp(prefix='c09_')
        try:
            opts = dict(format=fmt, add_filehash_to_path=hashpath, pretty_descriptor=pretty, counters=counters)

            # an encoding declared upstream (load(encoding=..) / update_resource(encoding=..)): whatever the dumper does with it, size
            # and hash describe the bytes of the file it wrote
            enc = h.rng.choice([None, None, 'latin-1', 'cp1252', 'utf-8'])
            from dataflows import update_resource as _ur
            pre = [_ur(None, encoding=enc)] if enc else []

            def run(where):
                dumper = dump_to_zip(where + '.zip', **opts) if zipped else dump_to_path(where, **opts)
                return Flow(*[[dict(r) for r in rs] for rs in data], *pre, dumper).process()
            got = h.run(lambda: run(os.path.join(d, 'a')))
            cfg = (fmt, zipped, hashpath, pretty, ckind, enc, data)
            if not h.check(got[0] == 'ok', 'dump', cfg, 'dump succeeds', got[:2]):
                continue
            dp, stats = got[1]
            if zipped:
                z = zipfile.ZipFile(os.path.join(d, 'a.zip'))
                desc = json.loads(z.read('datapackage.json'))
                read = lambda p: z.read(p)
                exists = lambda p: p in z.namelist()
            else:
                desc = json.load(open(os.path.join(d, 'a', 'datapackage.json')))
                read = lambda p: open(os.path.join(d, 'a', p), 'rb').read()
                exists = lambda p: os.path.exists(os.path.join(d, 'a', p))
            tot_b, tot_r = 0, 0
            for rdesc, rows in zip(desc['resources'], data):
                p = rdesc['path']
                if not h.check(exists(p), 'dump:path', cfg, 'recorded path %r exists' % p, None):
                    continue
                raw = read(p)
                if ckind != 'no-bytes':
                    h.check(get(rdesc, names['rb']) == len(raw), 'dump:bytes', cfg, len(raw), get(rdesc, names['rb']))
                if ckind != 'no-hash':
                    h.check(get(rdesc, names['rh']) == hashlib.md5(raw).hexdigest(), 'dump:hash', cfg, hashlib.md5(raw).hexdigest(), get(rdesc, names['rh']))
                else:
                    h.check(get(rdesc, 'hash') in (None, {}), 'dump:disabled-counter', cfg, 'absent', get(rdesc, 'hash'))
                if ckind != 'disabled':
                    h.check(get(rdesc, names['rr']) == len(rows), 'dump:rowcount', cfg, len(rows), get(rdesc, names['rr']))
                else:
                    h.check(get(rdesc, 'count_of_rows') in (None, {}), 'dump:disabled-counter', cfg, 'absent', get(rdesc, 'count_of_rows'))
                tot_b += len(raw)
                tot_r += len(rows)
            h.check(get(desc, names['pb']) == tot_b or ckind in ('nested', 'no-bytes'), 'dump:package-bytes', cfg, tot_b, get(desc, names['pb']))
            h.check(get(desc, names['pr']) == tot_r or ckind == 'nested', 'dump:package-rows', cfg, tot_r, get(desc, names['pr']))
            h.check(stats.get('count_of_rows') == get(desc, names['pr']), 'dump:stats-rows', cfg, get(desc, names['pr']), stats.get('count_of_rows'))
            h.check(stats.get('hash') == get(desc, names['ph']) or ckind == 'disabled', 'dump:stats-hash', cfg, get(desc, names['ph']), stats.get('hash'))
            # known finding F-C09-stats-bytes: stats['bytes'] additionally counts the size of datapackage.json
            h.cur = h.cur + '/stats-bytes'
            h.check(stats.get('bytes') == get(desc, names['pb']) or ckind in ('nested', 'disabled', 'no-bytes'), 'dump:stats-bytes', cfg,
                    get(desc, names['pb']), stats.get('bytes'))
            h.cur = h.cur[:-len('/stats-bytes')]
            # same data twice -> identical hashes
            got2 = h.run(lambda: run(os.path.join(d, 'b')))
            if got2[0] == 'ok':
                dp2 = got2[1][0].descriptor
                h.check(ckind == 'no-hash' or [get(r, names['rh']) for r in dp2['resources']] == [get(r, names['rh']) for r in desc['resources']] and
                        got2[1][1].get('hash') == stats.get('hash'), 'dump:deterministic-hash', cfg, 'same hashes', None)
            # a second dump of OTHER data into the same place (the re-run of a pipeline): the descriptor found there afterwards
            # describes the second dump and agrees with its stats
            if not zipped:
                other = [[dict(r, id=r['id'] + 1000) for r in rs] + [{'id': 7, 't': 'extra'}] for rs in data]
                h.run(lambda: run(os.path.join(d, 'e')))
                got4 = h.run(lambda: Flow(*[[dict(r) for r in rs] for rs in other], dump_to_path(os.path.join(d, 'e'), **opts)).process())
                if got4[0] == 'ok':
                    desc4 = json.load(open(os.path.join(d, 'e', 'datapackage.json')))
                    ok4 = True
                    for rdesc, rows in zip(desc4['resources'], other):
                        pth = os.path.join(d, 'e', rdesc['path'])
                        raw = open(pth, 'rb').read() if os.path.exists(pth) else None
                        ok4 = ok4 and raw is not None and (ckind == 'no-hash' or get(rdesc, names['rh']) == hashlib.md5(raw).hexdigest()) and \
                            (ckind == 'disabled' or get(rdesc, names['rr']) == len(rows)) and \
                            (ckind != 'no-hash' or get(rdesc, names['rb']) == len(raw))
                    ok4 = ok4 and (ckind == 'disabled' or get(desc4, names['ph']) == got4[1][1].get('hash'))
                    h.check(ok4, 'dump:second-dump-into-the-same-directory', cfg, 'descriptor describes the second dump',
                            [(r['path'], get(r, names['rr'])) for r in desc4['resources']])
            # dumping a package that was loaded from an earlier dump: its descriptors already carry counters; the new ones must
            # describe the new files, not old + new
            if not zipped and ckind not in ('disabled', 'no-bytes') and any(data):
                from dataflows import load
                got3 = h.run(lambda: Flow(load(os.path.join(d, 'a', 'datapackage.json')),
                                          dump_to_path(os.path.join(d, 'c'), **opts)).process())
                if got3[0] == 'ok':
                    desc3 = json.load(open(os.path.join(d, 'c', 'datapackage.json')))
                    for rdesc, rows in zip(desc3['resources'], data):
                        raw = open(os.path.join(d, 'c', rdesc['path']), 'rb').read()
                        h.check(get(rdesc, names['rb']) == len(raw), 'dump:redump-bytes', cfg, len(raw), get(rdesc, names['rb']))
                        h.check(get(rdesc, names['rr']) == len(rows), 'dump:redump-rowcount', cfg, len(rows), get(rdesc, names['rr']))
        finally:
            shutil.rmtree(d, ignore_errors=True)


nat_dump_stats.shards = 5


def nat_dump_dropping_validator(h):
    """a dumper whose own validator DROPS rows that do not cast (validator_options on_error=drop): the recorded row counts are the
    number of data rows in the written file, not the number of rows that reached the dumper"""
    import csv, io
    from dataflows import Flow, dump_to_path, schema_validator
    for _ in range(h.n(6, 40)):
        n = h.rng.randint(1, 8)
        bad = sorted(h.rng.sample(range(n), h.rng.randint(0, n)))
        fmt = h.rng.choice(['csv', 'json'])

        def spoil(rows):
            for i, r in enumerate(rows):
                if i in bad:
                    r['id'] = 'not a number'
                yield r
        d = tempfile.mkdtemp(prefix='c09v_')
        try:
            got = h.run(lambda: Flow([{'id': i, 't': 'v%d' % i} for i in range(n)], spoil,
                                     dump_to_path(os.path.join(d, 'o'), format=fmt,
                                                  validator_options=dict(on_error=schema_validator.drop))).process())
            cfg = (fmt, n, bad)
            if not h.check(got[0] == 'ok', 'dump', cfg, 'dump succeeds', got[:2]):
                continue
            desc = json.load(open(os.path.join(d, 'o', 'datapackage.json')))
            rdesc = desc['resources'][0]
            raw = open(os.path.join(d, 'o', rdesc['path']), 'rb').read().decode('utf-8')
            in_file = len(list(csv.reader(io.StringIO(raw, newline='')))) - 1 if fmt == 'csv' else len(json.loads(raw))
            h.check(rdesc.get('count_of_rows') == in_file and desc.get('count_of_rows') == in_file and
                    got[1][1].get('count_of_rows') == in_file, 'dump:rowcount-with-a-dropping-validator', cfg,
                    'all three counts == %d data rows in the file' % in_file,
                    (rdesc.get('count_of_rows'), desc.get('count_of_rows'), got[1][1].get('count_of_rows')))
        finally:
            shutil.rmtree(d, ignore_errors=True)


def nat_load_pair_selectors(h):
    """load((descriptor, iterators), resources=SEL) over a SEQUENTIAL source (unstream: all resources read from one file handle):
    every selector form delivers exactly the selected resources, each with ITS OWN rows"""
    import re
    from dataflows import Flow, load, stream, unstream, update_resource
    names = ['a', 'b', 'c', 'ab']
    data = {n: [{'k': '%s-row-%d' % (n, i)} for i in range(j + 1)] for j, n in enumerate(names)}
    d = tempfile.mkdtemp(prefix='c10l_')
    try:
        fn = os.path.join(d, 's.ndjson')
        Flow(*[x for n in names for x in (data[n], update_resource(-1, name=n))], stream(fn)).process()
        for sel in (None, 'a', 'b', ['b'], 1, -1, 'c', ['a', 'c'], 'b|c', 'a.*', ['ab', 'b'], 0, 3, 'zzz'):
            if sel is None:
                want = list(names)
            elif isinstance(sel, int):
                want = [names[sel]]
            elif isinstance(sel, list):
                want = [n for n in names if n in sel]
            else:
                want = [n for n in names if re.fullmatch(sel, n)]

            def run():
                ds = Flow(unstream(fn)).datastream()
                res, dp, _ = Flow(load((ds.dp.descriptor, ds.res_iter), resources=sel)).results()
                return [(r['name'], rows) for r, rows in zip(dp.descriptor['resources'], res)]
            got = h.run(run)
            h.check(got[0] == 'ok' and got[1] == [(n, data[n]) for n in want], 'dataflows/processors/load.py::load.safe_process_datapackage',
                    ('selector', sel), [(n, len(data[n])) for n in want], got[1] if got[0] == 'ok' else got[:2])
    finally:
        shutil.rmtree(d, ignore_errors=True)


# ------------------------------------------------------------------------------------------------ C19

def nat_dump_crashpoints(h):
    return _nat_dump_crashpoints(h)


nat_dump_crashpoints.shards = 6


def _nat_dump_crashpoints(h):
    """kill the dumping process at every copy / unlink / close performed by dump_to_path; whenever a parseable
    datapackage.json exists afterwards, every listed file exists with the recorded size and hash"""
    import hashlib
    for case0 in range(h.n(6, 42)):
        case = case0 * h.shard[1] + h.shard[0]
        nres = h.rng.randint(1, 3)
        data = [[{'id': i, 't': 'v%d' % i} for i in range(h.rng.randint(0, 3))] for _k in range(nres)]
        fmt = h.rng.choice(['csv', 'json'])
        # histories and options: an earlier, complete dump of same-named resources in the same process; content-addressed
        # paths with byte-identical resources
        earlier = case % 2 == 1
        hashpath = case % 3 == 2
        if hashpath:
            # two resources with byte-identical output (also the 0-row boundary)
            nres = max(nres, 2)
            data = (data + [[]])[:nres]
            data[1] = [dict(r) for r in data[0]]
        opts = dict(format=fmt, add_filehash_to_path=hashpath)
        max_events = 3 * (nres + 1) + 2
        for k in range(max_events + 1):
            d = tempfile.mkdtemp(prefix='c19_')
            try:
                pid = os.fork()
                if pid == 0:
                    try:
                        devnull = os.open(os.devnull, os.O_WRONLY)
                        os.dup2(devnull, 1)
                        os.dup2(devnull, 2)
                        import shutil as _sh
                        import dataflows.processors.dumpers.to_path as tp
                        import dataflows.processors.dumpers.file_dumper as fd
                        from dataflows import Flow, dump_to_path
                        if earlier:
                            Flow(*[[dict(r) for r in rs] for rs in data], [{'z': 1}], dump_to_path(os.path.join(d, 'earlier'), **opts)).process()
                        cnt = [0]

                        def tick():
                            if cnt[0] == k:
                                os._exit(9)
                            cnt[0] += 1
                        real_copy, real_unlink = _sh.copy, os.unlink

                        def copy(a, b):
                            tick()                 # killed just before the copy
                            # a kill in the middle of the copy: destination exists but is incomplete
                            if cnt[0] == k:
                                with open(b, 'wb') as f:
                                    f.write(open(a, 'rb').read()[:1])
                                os._exit(9)
                            cnt[0] += 1
                            r = real_copy(a, b)
                            tick()                 # killed just after the copy
                            return r

                        def unlink(p):
                            tick()
                            return real_unlink(p)
                        tp.shutil.copy = copy
                        fd.os.unlink = unlink
                        Flow(*[[dict(r) for r in rs] for rs in data], dump_to_path(os.path.join(d, 'out'), **opts)).process()
                    finally:
                        os._exit(0)
                os.waitpid(pid, 0)
                dpj = os.path.join(d, 'out', 'datapackage.json')
                ok = True
                note = 'no descriptor'
                if os.path.exists(dpj):
                    try:
                        desc = json.load(open(dpj))
                    except Exception:
                        desc = None
                        note = 'descriptor present but unparseable (treated as absent)'
                    if desc is not None:
                        note = 'descriptor parseable'
                        for r in desc['resources']:
                            p = os.path.join(d, 'out', r['path'])
                            if not os.path.exists(p):
                                ok = False
                                note = 'descriptor lists missing file %s' % r['path']
                                break
                            raw = open(p, 'rb').read()
                            if len(raw) != r.get('bytes') or hashlib.md5(raw).hexdigest() != r.get('hash'):
                                ok = False
                                note = 'file %s does not have the recorded size/hash' % r['path']
                                break
                h.check(ok, 'dataflows/processors/dumpers/dumper_base.py::DumperBase.process_resources',
                        (fmt, data, 'earlier dump in the process' if earlier else 'first dump', 'hash in path' if hashpath else 'plain paths', 'kill at event', k),
                        'descriptor present => data files complete', note)
            finally:
                shutil.rmtree(d, ignore_errors=True)



def nat_printer_report(h):
    """bounded: WHAT the printer reports (the table handed to tabulate): every data line is a row of the stream at the printer's
    position -- its 1-based index and the text of its cells as the row ENTERED (a later step edits rows in place), long cells cut at
    max_cell_size --, indices strictly increasing, the first and the last row always there, all rows there when the resource is not
    longer than num_rows + 1, a '...' line exactly where indices jump; the header names the resource and the fields with their types"""
    import importlib
    pm = importlib.import_module('dataflows.processors.printer')      # (the package re-exports the FUNCTION under the module's name)
    from dataflows import Flow, printer
    real = pm.tabulate
    try:
        for _ in range(h.n(25, 200)):
            n = h.rng.choice([0, 1, 2, 3, 5, 11, 12, 13, 40, 125])
            num_rows = h.rng.choice([1, 2, 3, 10])
            last_rows = h.rng.choice([None, 1, 4])
            mcs = h.rng.choice([100, 5])
            fields = h.rng.choice([None, ['b'], ['b', 'a']])
            rows = [{'a': i, 'b': 'text-%d-%s' % (i, 'x' * (i % 9)), 'c': [i]} for i in range(n)]
            captured, heads = [], []
            pm.tabulate = lambda data, headers=(), **kw: (captured.append(([list(r) for r in data], list(headers))) or 'TABLE')

            def scribble(row):
                row['b'] = 'EDITED-DOWNSTREAM'
                row['a'] = -1
            got = h.run(lambda: Flow([dict(r) for r in rows], printer(num_rows=num_rows, last_rows=last_rows, fields=fields, max_cell_size=mcs,
                                                                       header_print=lambda hd, kw: heads.append(hd), table_print=lambda t, kw: None),
                                     scribble).process())
            cfg = (n, num_rows, last_rows, mcs, fields)
            if n == 0:
                continue          # (an empty list is no resource)
            ok = got[0] == 'ok' and len(captured) == 1 and heads == ['res_1']
            note = None
            if ok:
                data, headers = captured[0]
                names = [f for f in ('a', 'b', 'c') if fields is None or f in fields]
                cut = lambda v: str(v) if len(str(v)) <= mcs else str(v)[:mcs] + ' ...'
                ok = headers[0] == '#' and [hd.split('\n')[0] for hd in headers[1:]] == names
                lines = [r for r in data if r != ['...']]
                idx = [r[0] for r in lines]
                ok = ok and all(isinstance(i, int) and 1 <= i <= n for i in idx) and idx == sorted(set(idx)) and idx[0] == 1 and idx[-1] == n
                ok = ok and all(r[1:] == [cut(rows[r[0] - 1][f]) for f in names] for r in lines)
                if n <= num_rows + 1:
                    ok = ok and idx == list(range(1, n + 1))
                # '...' exactly at the jumps
                want_shape = []
                for j, i in enumerate(idx):
                    if j and i != idx[j - 1] + 1:
                        want_shape.append('...')
                    want_shape.append(i)
                ok = ok and [('...' if r == ['...'] else r[0]) for r in data] == want_shape
                note = (headers, data[:6], len(data))
            h.check(ok, 'dataflows/processors/printer.py::printer.func', cfg, 'the table reports rows of the stream as they entered', note or got[:2])
    finally:
        pm.tabulate = real


def nat_dump_failures(h):
    """bounded: a RUN THAT FAILS (an exception in a source or a step, not a kill) while dump_to_path / dump_to_zip is writing: whenever
    a parseable descriptor can be found afterwards (datapackage.json in the directory / in a readable archive), every file it lists
    is there with the recorded size and hash"""
    import hashlib, zipfile
    from dataflows import Flow, dump_to_path, dump_to_zip
    for kind in ('path', 'zip'):
        for fmt in ('csv', 'json'):
            for fail_res, fail_row in ((0, 0), (0, 2), (1, 0), (1, 150), (2, 1), (2, 3)):
                d = tempfile.mkdtemp(prefix='c19f_')
                try:
                    def src(k, n):
                        def gen():
                            for i in range(n):
                                if k == fail_res and i == fail_row:
                                    raise RuntimeError('source %d failed at row %d' % (k, i))
                                yield {'id': i, 't': 'r%d_%d' % (k, i)}
                            if k == fail_res and fail_row >= n:
                                raise RuntimeError('source %d failed at its end' % k)
                        return gen()
                    sizes = [3, 200, 3]
                    dumper = dump_to_path(os.path.join(d, 'out'), format=fmt) if kind == 'path' else dump_to_zip(os.path.join(d, 'out.zip'), format=fmt)
                    # (the first 100 rows of every source are read when the flow is built: a failure among them stops the run before
                    # the dumper starts -- fine, then there is nothing to look at)
                    got = h.run(lambda: Flow(*[src(k, n) for k, n in enumerate(sizes)], dumper).process())
                    desc, read = None, None
                    if kind == 'path' and os.path.exists(os.path.join(d, 'out', 'datapackage.json')):
                        try:
                            desc = json.load(open(os.path.join(d, 'out', 'datapackage.json')))
                            read = lambda p: open(os.path.join(d, 'out', p), 'rb').read() if os.path.exists(os.path.join(d, 'out', p)) else None
                        except Exception:
                            desc = None
                    if kind == 'zip' and os.path.exists(os.path.join(d, 'out.zip')):
                        try:
                            zf = zipfile.ZipFile(os.path.join(d, 'out.zip'))
                            if 'datapackage.json' in zf.namelist():
                                desc = json.loads(zf.read('datapackage.json'))
                                read = lambda p: zf.read(p) if p in zf.namelist() else None
                        except Exception:
                            desc = None
                    ok, note = got[0] == 'exc', 'no descriptor' if got[0] == 'exc' else 'the run did not fail'
                    if desc is not None:
                        note = 'descriptor parseable'
                        for r in desc['resources']:
                            raw = read(r['path'])
                            if raw is None:
                                ok, note = False, 'descriptor lists missing file %s' % r['path']
                                break
                            if len(raw) != r.get('bytes') or hashlib.md5(raw).hexdigest() != r.get('hash'):
                                ok, note = False, 'file %s does not have the recorded size/hash' % r['path']
                                break
                    h.check(ok, 'dataflows/processors/dumpers/dumper_base.py::DumperBase.process_resources', (kind, fmt, 'source', fail_res, 'fails at row', fail_row),
                            'the run fails; descriptor present => data files complete', note)
                finally:
                    shutil.rmtree(d, ignore_errors=True)


def nat_observers_behind_a_pair(h):
    """bounded: a flow with observers (dump, stream, checkpoint, finalizer) whose datastream is handed to another flow as a
    (descriptor, iterators) pair -- the documented way of running steps on the output of another flow: when the outer flow has
    run, the inner observers have seen the complete stream and finished (descriptor written, final name, callback called once)"""
    import json
    from dataflows import Flow, load, dump_to_path, stream, finalizer, checkpoint
    for nres in (1, 2, 3):
        for selected in ([None] + ['res_%d' % k for k in range(1, nres + 1)] + [0, -1]):
            d = tempfile.mkdtemp(prefix='c05p_')
            try:
                data = [[{'a': 10 * k + i} for i in range(3 + k)] for k in range(nres)]
                fired = []
                inner = Flow(*[[dict(r) for r in rs] for rs in data], dump_to_path(os.path.join(d, 'out')),
                             stream(os.path.join(d, 's', 'x.ndjson')), checkpoint('cp', checkpoint_path=os.path.join(d, 'cps')),
                             finalizer(lambda: fired.append(1))).datastream()
                got = h.run(lambda: Flow(load((inner.dp.descriptor, inner.res_iter), resources=selected)).results(on_error=None)[0])
                cfg = (nres, selected)
                if not h.check(got[0] == 'ok', 'dataflows/processors/load.py::load.process_resources', cfg, 'runs', got[:2]):
                    continue
                dpj = os.path.join(d, 'out', 'datapackage.json')
                ok = os.path.exists(dpj) and [r['count_of_rows'] for r in json.load(open(dpj))['resources']] == [len(x) for x in data]
                h.check(ok, 'dataflows/processors/load.py::load.process_resources', cfg, 'inner dump complete: descriptor with all row counts',
                        os.listdir(os.path.join(d, 'out')) if os.path.isdir(os.path.join(d, 'out')) else None)
                h.check(os.listdir(os.path.join(d, 's')) == ['x.ndjson'] and os.listdir(os.path.join(d, 'cps', 'cp')) == ['stream.ndjson'],
                        'dataflows/processors/load.py::load.process_resources', cfg, 'stream and checkpoint under their final names',
                        (os.listdir(os.path.join(d, 's')), os.listdir(os.path.join(d, 'cps', 'cp'))))
                h.check(fired == [1], 'dataflows/processors/load.py::load.process_resources', cfg, 'finalizer called exactly once', fired)
            finally:
                shutil.rmtree(d, ignore_errors=True)



def nat_stats_of_several_dumpers(h):
    """bounded: several dumpers in one flow (a raw dump, a filter, a final dump): what process() / results() return as stats are the
    numbers of the LAST dump (later steps win when stats are merged), and they agree with that dump's written descriptor"""
    import json
    from dataflows import Flow, dump_to_path, filter_rows
    for n in (3, 8):
        d = tempfile.mkdtemp(prefix='c09s_')
        try:
            rows = [{'i': i, 't': 'row %d' % i} for i in range(n)]
            for api in ('process', 'results'):
                a, b = os.path.join(d, api + '_raw'), os.path.join(d, api + '_final')
                f = Flow([dict(r) for r in rows], dump_to_path(a), filter_rows(lambda r: r['i'] % 2 == 0), dump_to_path(b))
                got = h.run(lambda: f.process() if api == 'process' else f.results())
                if not h.check(got[0] == 'ok', 'dataflows/base/datastream.py::DataStream.merge_stats', (n, api), 'runs', got[:2]):
                    continue
                stats = got[1][-1]
                last = json.load(open(os.path.join(b, 'datapackage.json')))
                first = json.load(open(os.path.join(a, 'datapackage.json')))
                h.check(stats.get('count_of_rows') == last['count_of_rows'] == (n + 1) // 2 and first['count_of_rows'] == n and
                        stats.get('hash') == last['hash'], 'dataflows/base/datastream.py::DataStream.merge_stats', (n, api),
                        dict(count_of_rows=last['count_of_rows'], hash=last['hash']), dict(stats))
        finally:
            shutil.rmtree(d, ignore_errors=True)



def nat_lookahead_sql_source(h):
    """bounded: a database table as the source of load (format='sql'): rows are fetched as they are delivered -- what is read ahead
    is the inference sample plus the driver's fetch batch, whatever the size of the table.  The rows the database has handed out
    are counted by an SQL function the query goes through."""
    import sqlite3
    from sqlalchemy import event
    from sqlalchemy.engine import Engine
    from dataflows import Flow, load
    pulled = [0]

    def tick(value):
        pulled[0] += 1
        return value

    def register(dbapi_connection, _):
        if isinstance(dbapi_connection, sqlite3.Connection):
            dbapi_connection.create_function('tick', 1, tick)
    event.listen(Engine, 'connect', register)
    BOUND = 1000 + 1000 + 100
    try:
        for size in ((3000, 9000) if h.tier == 'quick' else (3000, 12000, 48000)):
            d = tempfile.mkdtemp(prefix='c06sql_')
            try:
                db = os.path.join(d, 'source.db')
                conn = sqlite3.connect(db)
                conn.execute('create table data (id integer primary key, name text, amount integer)')
                conn.executemany('insert into data values (?, ?, ?)', ((i, 'name-%d' % i, i * 3) for i in range(size)))
                conn.commit()
                conn.close()
                pulled[0] = 0
                seen = dict(delivered=0, worst=0)

                def sink(rows):
                    for row in rows:
                        seen['worst'] = max(seen['worst'], pulled[0] - seen['delivered'])
                        seen['delivered'] += 1
                        yield row
                got = h.run(lambda: Flow(load('sqlite:///' + db, format='sql', name='data', query='select tick(id) as id, name, amount from data'),
                                         sink).process())
                h.check(got[0] == 'ok' and seen['delivered'] == size and seen['worst'] <= BOUND, 'lookahead:sql-source', size,
                        'look-ahead <= %d, %d rows' % (BOUND, size), (got[:2], seen))
            finally:
                shutil.rmtree(d, ignore_errors=True)
    finally:
        event.remove(Engine, 'connect', register)
