"""C07  Resuming from a checkpoint reproduces the first run.

 (i)   extended JSON: for every value type the encoding claims, object_hook(default(v)) == v
         decimal   : Decimal(str(d)) == d                                   (T10a, assumed of `decimal`)
         date/time : strptime(strftime(x, F), P) == x at second precision    (T10b, assumed of `datetime`)
         datetime  : as above for the wall clock, and the UTC offset and zone name come back unchanged
                     -- the integer core of the obligation: decoded_offset == offset for every -86400 < offset < 86400
         duration  : parse_duration(duration_isoformat(x)) == x             (T10c, assumed of `isodate`)
         set       : set(list(s)) == s
       and a value that is none of these is left to json (default() defers to the base encoder).
 (ii)  framing: one line per object, an empty line after each resource; the reader yields the decoded lines of a resource
       up to the first empty line, and one reader per resource of the stored descriptor  (stream.py / unstream.py)
 (iii) chain surgery: Flow._preprocess_chain lets a checkpoint swallow the links before it; checkpoint._preprocess_chain
       resumes with exactly the reader when the file exists (C08 contract)
"""
from contracts import findings_natives as KF
from contracts.common import Item, mk_resource, mk_package2, expect_no_raise_or_same, _b
from contracts import streams as S
from contracts.streams import calls, effect_names

EJ = 'dataflows/helpers/extended_json.py'
TRUSTED = ['T1 pyvc model of Python (DESIGN 3)',
           'T10 strptime(strftime(x)) == x at second precision for the three formats (years >= 1000); Decimal(str(d)) == d; '
           'isodate duration round trip; timedelta(seconds=s).total_seconds() == s',
           'T8 json.loads(json.dumps(v)) == v on JSON values (tuples come back as lists); no raw newline without indent',
           'T16 z3 / cvc5']
ASSUMPTIONS = ['rows entering a checkpoint hold native values of the schema types',
               'a plain dict whose keys collide with a type{..} tag is outside the round-trip claim',
               'sub-second parts of time / datetime values are dropped by the encoding: recorded finding F-C07-microseconds']


def mk_temporal(it, kind, aware=None, named=True):
    """model of a datetime.date / time / datetime value: abstract identity `v`, strftime uninterpreted, utcoffset/tzname"""
    import z3
    from pyvc.api import Opaque, IntS, StrS, RealS, wrap, SV
    v = it.fresh(kind, IntS)
    o = Opaque(kind, kind, term=v)
    o.attrs['__kinds__'] = ('date',) if kind == 'datetime' else ()
    SF = z3.Function('strftime', StrS, IntS, StrS, StrS)      # (kind, value, format) -> text
    o.attrs['call:strftime'] = lambda it_, ob, a, k: wrap(SF(z3.StringVal(kind), v, z3.StringVal(a[0])))
    if kind == 'datetime':
        off = it.fresh('utcoffset', IntS)
        it.assume(z3.And(off > -86400, off < 86400))
        o.offset = off
        o.aware = aware
        name = it.fresh('tzname', StrS)
        o.tzname = name

        def utcoffset(it_, ob, a, k):
            if not aware:
                return None
            td = Opaque('timedelta', 'utcoffset')
            # timedelta normalisation: days = floor(s / 86400), seconds = s mod 86400, total_seconds() = s
            td.attrs['seconds'] = wrap(off % 86400)
            td.attrs['days'] = wrap(off / 86400)
            td.attrs['call:total_seconds'] = lambda it2, o2, a2, k2: SV(off)
            return td
        o.attrs['call:utcoffset'] = utcoffset
        o.attrs['call:tzname'] = lambda it_, ob, a, k: (SV(name) if (aware and named) else None)
        o.named = named
    return o


def install_datetime_model(it):
    """datetime / decimal / isodate constructors used by the decoder, as uninterpreted functions with the assumed inverses"""
    import z3
    from pyvc.api import Opaque, Builtin, IntS, StrS, wrap, SV, term
    from pyvc import lib
    SF = z3.Function('strftime', StrS, IntS, StrS, StrS)
    dtm = it.module('datetime')

    class DT(lib.TypeV):
        pass
    dtT = dtm.attrs['datetime']

    def strptime(it_, s, fmt):
        r = Opaque('datetime', 'parsed')
        r.attrs['__kinds__'] = ('date',)
        r.parsed_from = (s, fmt)
        r.attrs['call:time'] = lambda it2, o, a, k: _part(r, 'time')
        r.attrs['call:date'] = lambda it2, o, a, k: _part(r, 'date')
        return r

    def _part(r, what):
        p = Opaque(what, 'parsed.' + what)
        p.part_of = r
        return p
    dtT_attrs = {'strptime': Builtin('datetime.strptime', strptime)}

    def combine(it_, d, t, tz):
        r = Opaque('datetime', 'combined')
        r.combined = (d, t, tz)
        return r
    dtT_attrs['combine'] = Builtin('datetime.combine', combine)
    dtT.attrs_static = dtT_attrs

    def timedelta(it_, **kw):
        td = Opaque('timedelta', 'td')
        td.seconds_arg = kw.get('seconds')
        return td

    def timezone(it_, td, name=None):
        tz = Opaque('timezone', 'tz')
        tz.td, tz.tzname = td, name
        return tz
    dtm.attrs['timedelta'].ctor = timedelta
    dtm.attrs['timezone'].ctor = timezone
    return SF


def sym_ejson_roundtrip(vc):
    import z3
    from pyvc.api import (real_function, check, cover, Opaque, PyDict, PyList, SV, IntS, StrS, wrap, term, Builtin)
    from pyvc.symex import PyExc
    from pyvc import lib
    fk = vc.under_contract(EJ, ['CommonJSONEncoder', 'default'])
    fk2 = vc.under_contract(EJ, ['CommonJSONDecoder', 'object_hook'])
    cases = ['decimal', 'time', 'date', 'datetime-naive', 'datetime-aware', 'datetime-aware-unnamed', 'duration', 'set', 'other']
    for case in cases:
        def thunk(it, case=case):
            SF = install_datetime_model(it)
            m = it.module('dataflows.helpers.extended_json')
            # the six format constants are those the module's own top-level code computes (its platform probe is answered as
            # on glibc by the datetime stub); the obligations below name the format pairs for which T10 holds, so a constant
            # that drifts away from them fails its round-trip obligation
            for cname in ('DATE_F_FORMAT', 'DATETIME_F_FORMAT', 'TIME_F_FORMAT', 'DATE_P_FORMAT', 'DATETIME_P_FORMAT', 'TIME_P_FORMAT'):
                if not isinstance(m.attrs.get(cname), str):
                    raise lib.Unsupported('CONTRACT-MAPPING extended_json.%s is not a string constant: %r' % (cname, m.attrs.get(cname)))
            dtT = it.module('datetime').attrs['datetime']
            # datetime.datetime.strptime / combine are attribute lookups on the type
            lib_getattr = it.lib.getattr_
            ENC = m.attrs['CommonJSONEncoder']
            DEC = m.attrs['CommonJSONDecoder']
            enc = it.lib.Instance(ENC) if hasattr(it.lib, 'Instance') else None
            from pyvc.values import Instance
            enc = Instance(ENC)
            default = lib.find_method(ENC, 'default')
            hook = lib.find_method(DEC, 'object_hook')
            dec_mod = it.module('decimal')
            iso = it.module('isodate')
            iso.attrs['Duration'] = lib.TypeV('Duration')
            DUR = z3.Function('duration_isoformat', IntS, StrS)
            iso.attrs['duration_isoformat'] = Builtin('isodate.duration_isoformat', lambda it_, d: wrap(DUR(d.term)))

            def parse_duration(it_, s):
                r = Opaque('timedelta', 'parsed_duration')
                r.parsed_text = s
                return r
            iso.attrs['parse_duration'] = Builtin('isodate.parse_duration', parse_duration)
            DSTR = z3.Function('decimal_str', IntS, StrS)

            def Decimal_ctor(it_, s):
                r = Opaque('Decimal', 'parsed_decimal')
                r.parsed_text = s
                return r
            DecT = dec_mod.attrs['Decimal']
            DecT.ctor = Decimal_ctor
            # ---- the value
            if case == 'decimal':
                vt = it.fresh('dec', IntS)
                v = Opaque('Decimal', 'd', term=vt)
                v.attrs['__str__'] = wrap(DSTR(vt))
            elif case in ('time', 'date'):
                v = mk_temporal(it, case)
            elif case == 'datetime-naive':
                v = mk_temporal(it, 'datetime', aware=False)
            elif case == 'datetime-aware':
                v = mk_temporal(it, 'datetime', aware=True)
            elif case == 'datetime-aware-unnamed':
                # a tzinfo without a name (dateutil.tz.tzoffset(None, secs)): zone-aware all the same
                v = mk_temporal(it, 'datetime', aware=True, named=False)
            elif case == 'duration':
                v = Opaque('timedelta', 'dur', term=it.fresh('dur', IntS))
            elif case == 'set':
                v = lib.SetV(it.fresh('aset', z3.ArraySort(lib.Cell, z3.BoolSort())), lib.Cell)
            else:
                v = Opaque('UserType', 'x')
            # ---- encode
            if case == 'other':
                base = ENC.bases[0]
                seen = []
                base.methods['default'] = Builtin('JSONEncoder.default', lambda it_, self_, o: seen.append(o) or 'BASE')
                r = it.call(default, [enc, v])
                check(it, 'unknown-type-left-to-json', r == 'BASE' and seen == [v])
                return
            r = it.call(default, [enc, v])
            tagname = {'decimal': 'type{decimal}', 'time': 'type{time}', 'date': 'type{date}', 'datetime-naive': 'type{datetime}',
                       'datetime-aware': 'type{datetime}', 'datetime-aware-unnamed': 'type{datetime}', 'duration': 'type{duration}', 'set': 'type{set}'}[case]
            ok = isinstance(r, PyDict) and list(r.d) == [tagname]
            check(it, 'encodes-under-its-own-tag[%s]' % case, ok)
            if not ok:
                return
            payload = r.d[tagname]
            # ---- through JSON (T8): tuples come back as lists, everything else equal
            if isinstance(payload, tuple):
                payload = PyList(list(payload))
            if case == 'set':
                payload = payload if not isinstance(payload, lib.SetV) else payload
            obj = PyDict({tagname: payload})
            back = it.call(hook, [DEC, obj]) if getattr(hook, 'is_classmethod', False) else it.call(hook, [obj])
            # ---- compare
            if case == 'decimal':
                check(it, 'decimal-round-trip', isinstance(back, Opaque) and back.kind == 'Decimal' and
                      _b(term(back.parsed_text, StrS) == DSTR(v.term)))       # Decimal(str(d)) with T10a gives d
            elif case in ('time', 'date'):
                fmtF = '%H:%M:%S' if case == 'time' else '%04Y-%m-%d'
                fmtP = '%H:%M:%S' if case == 'time' else '%Y-%m-%d'
                ok = isinstance(back, Opaque) and back.kind == case and getattr(back, 'part_of', None) is not None
                check(it, '%s-decoded-through-strptime' % case, ok)
                if ok:
                    s, f = back.part_of.parsed_from
                    check(it, '%s-round-trip' % case, z3.And(term(s, StrS) == SF(z3.StringVal(case), v.term, z3.StringVal(fmtF)),
                                                            z3.BoolVal(f == fmtP)))
            elif case.startswith('datetime'):
                aware = 'aware' in case and 'naive' not in case
                if aware:
                    ok = isinstance(back, Opaque) and getattr(back, 'combined', None) is not None
                    check(it, 'aware-datetime-rebuilt-with-a-timezone', ok)
                    if ok:
                        d, t, tz = back.combined
                        src = d.part_of
                        check(it, 'aware-datetime-wall-clock-round-trip', d.part_of is t.part_of and
                              _b(term(src.parsed_from[0], StrS) == SF(z3.StringVal('datetime'), v.term, z3.StringVal('%04Y-%m-%dT%H:%M:%S'))))
                        secs = tz.td.seconds_arg
                        check(it, 'utc-offset-round-trip', term(secs, IntS) == v.offset)
                        if getattr(v, 'named', True):
                            check(it, 'zone-name-round-trip', term(tz.tzname, StrS) == v.tzname)
                        else:
                            check(it, 'unnamed-zone-stays-unnamed', tz.tzname is None)
                else:
                    ok = isinstance(back, Opaque) and getattr(back, 'parsed_from', None) is not None
                    check(it, 'naive-datetime-stays-naive', ok)
                    if ok:
                        check(it, 'naive-datetime-round-trip', term(back.parsed_from[0], StrS) ==
                              SF(z3.StringVal('datetime'), v.term, z3.StringVal('%04Y-%m-%dT%H:%M:%S')))
            elif case == 'duration':
                check(it, 'duration-round-trip', isinstance(back, Opaque) and _b(term(back.parsed_text, StrS) == DUR(v.term)))
            elif case == 'set':
                check(it, 'set-round-trip', isinstance(back, lib.SetV) and _b(back.arr == v.arr))
            cover(it, 'reachable[%s]' % case)
        paths = vc.explore(fk, thunk, min_paths=1)
        expect_no_raise_or_same(vc, fk, paths)
    # the arithmetic lemma behind the offset obligation, stated on its own: with timedelta normalisation, storing
    # `.seconds` loses negative offsets, storing total_seconds() does not
    vc.cur_fn = fk
    s = z3.Int('s')
    vc.add('extended_json.lemma.total_seconds-is-injective-on-offsets', [s > -86400, s < 86400], (s / 86400) * 86400 + s % 86400 == s)


def nat_ejson(h):
    import datetime, decimal, isodate
    from dataflows.helpers.extended_json import ejson
    tzs = [None] + [datetime.timezone(datetime.timedelta(seconds=s), n) for s, n in
                    ((0, 'UTC'), (3600, 'A'), (-18000, 'EST'), (-1800, 'X'), (45 * 60 + 5 * 3600, 'NPT'), (-86399, 'm'), (86399, 'p'),
                     # abbreviations are ambiguous: one name, several offsets, all decoded in this one process
                     (28800, 'CST'), (-21600, 'CST'), (-18000, 'CST'), (19800, 'IST'), (3600, 'IST'), (7200, 'IST'))]
    try:
        from dateutil import tz as _dtz
        # tzinfo objects WITHOUT a name (what casting '...T10:00:00+05:30' with format 'any' produces)
        tzs = tzs + [_dtz.tzoffset(None, 19800), _dtz.tzoffset(None, -28800)]
    except ImportError:
        pass
    for _ in range(h.n(200, 2000)):
        kind = h.rng.choice(['decimal', 'date', 'time', 'datetime', 'datetime', 'duration', 'set', 'nested', 'text'])
        if kind == 'decimal':
            v = decimal.Decimal(h.rng.choice(['0', '-1.50', '1E+3', '12345678901234567890.123456789', '0.1', '-0']))
        elif kind == 'date':
            v = datetime.date(h.rng.choice([1, 7, 99, 987, 1000, 1999, 2024, 9999]), h.rng.randint(1, 12), h.rng.randint(1, 28))
        elif kind == 'time':
            v = datetime.time(h.rng.randint(0, 23), h.rng.randint(0, 59), h.rng.randint(0, 59))
        elif kind == 'datetime':
            v = datetime.datetime(h.rng.choice([1, 7, 99, 987, 1000, 1999, 2024, 9999]), h.rng.randint(1, 12), h.rng.randint(1, 28), h.rng.randint(0, 23),
                                  h.rng.randint(0, 59), h.rng.randint(0, 59), tzinfo=h.rng.choice(tzs))
        elif kind == 'duration':
            v = datetime.timedelta(days=h.rng.randint(0, 400), seconds=h.rng.randint(0, 86399))
        elif kind == 'set':
            v = set(h.rng.sample(['a', 'b', 1, 2, 3.5], h.rng.randint(0, 4)))
        elif kind == 'nested':
            v = {'l': [1, 'x', None, {'d': decimal.Decimal('1.5')}], 'o': {'t': datetime.date(2020, 1, 2)}}
        else:
            v = h.rng.choice(['', 'é\u0000\n', '😀', 'a"b\\c', ' x '])
        line = ejson.dumps({'v': v}, sort_keys=True, ensure_ascii=True)
        back = ejson.loads(line)['v']
        ok = back == v and type(back) is type(v) and '\n' not in line
        if kind == 'datetime' and ok:
            # a zone without a name comes back as a plain fixed-offset zone (whose tzname() is derived from the offset)
            ok = back.utcoffset() == v.utcoffset() and (back.tzname() == v.tzname() if v.tzname() is not None or v.tzinfo is None
                                                        else back.tzinfo == datetime.timezone(v.utcoffset()))
        h.check(ok, EJ + '::CommonJSONEncoder.default', (kind, repr(v)), repr(v), repr(back))


def nat_microseconds(h):
    """known finding: sub-second parts are dropped"""
    import datetime
    from dataflows.helpers.extended_json import ejson
    v = datetime.time(1, 2, 3, 456)
    back = ejson.loads(ejson.dumps({'v': v}))['v']
    h.check(back == v, EJ + '::CommonJSONEncoder.default', repr(v), repr(v), repr(back))


def sym_res_reader(vc):
    """unstream.res_reader: yields the decoded non-empty lines, in order, and stops at the first empty line; read() decodes a
    stripped line and maps an empty one to None; func yields the stored descriptor then one reader per listed resource"""
    import z3
    from pyvc.api import real_function, check, cover, LoopSpec, yields_of, sym_str, Opaque, UFunc, wrap, SV, StrS, IntS, GenObj, PyList
    fk = vc.under_contract('dataflows/processors/unstream.py', ['unstream', 'res_reader'])
    vc.under_contract('dataflows/processors/unstream.py', ['unstream', 'read'])
    vc.under_contract('dataflows/processors/unstream.py', ['unstream', 'func'])

    def thunk(it):
        un = real_function(it, 'dataflows.processors.unstream', 'unstream')
        f = Opaque('file', 'infile')
        LOADS = z3.Function('ejson_loads', StrS, lib_cell())
        line_n = [0]
        lines = []

        def readline(it_, o, a, k):
            line_n[0] += 1
            raw = Opaque('rawline', 'line%d' % line_n[0])
            s = it_.fresh('stripped', StrS)
            raw.attrs['call:strip'] = lambda it2, o2, a2, k2: SV(s)
            lines.append(s)
            # input invariant: a non-empty line of a checkpoint file is the encoding of a row / descriptor object, never `null`
            it_.assume(z3.Implies(z3.Length(s) > 0, z3.Not(lib_cell().is_none(LOADS(s)))))
            from pyvc.symex import Ev
            it_.emit(Ev('Call', target=o, method='readline', args=(), kwargs={}, result=raw, objs=()))
            return raw
        f.attrs['call:readline'] = readline
        m = it.module('dataflows.helpers.extended_json')
        m.attrs['ejson'].methods['loads'] = UFunc('ejson.loads', lambda it_, a, k: it_.uncell(LOADS(a[0].t)), True)
        m.attrs['ejson'].methods['loads'].is_static = True
        func = it.call(un, [f])
        res_reader = func.env.lookup('res_reader')

        def at_end(it, env, cap, events):
            ys = yields_of(events)
            s = lines[-1]
            check(it, 'non-empty-line-decoded-and-yielded', len(ys) == 1 and _b(it.cell_of(ys[0].value) == LOADS(s)) and
                  z3.Length(s) > 0)
            check(it, 'exactly-one-line-read-per-row', len(calls(events, method='readline')) == 1)
            cover(it, 'iter-reachable')

        def at_break(it, env, cap, events):
            s = lines[-1]
            check(it, 'stops-at-the-first-empty-line', z3.And(z3.Length(s) == 0, _b(not yields_of(events))))
            check(it, 'boundary-line-consumed', len(calls(events, method='readline')) == 1)
        it.loops['res_reader#L0'] = LoopSpec(at_start=lambda it, env, x: None, at_end=at_end, at_break=at_break, modes=('iter',))
        it.run_generator(it.call(res_reader, []))
        check(it, 'nothing-after-the-boundary', True)
    vc.explore(fk, thunk, min_paths=2)

    # func(package): reads ONE line (the stored descriptor), yields a Package built from exactly that descriptor, then one lazy
    # reader per resource the descriptor lists -- handing a reader out reads nothing
    fk_func = vc.under_contract('dataflows/processors/unstream.py', ['unstream', 'func'])

    def thunk_func(it):
        from pyvc.api import PyDict, SymList, SymSeq, Tree
        from pyvc.symex import Ev
        from contracts.common import fn_named
        un = real_function(it, 'dataflows.processors.unstream', 'unstream')
        f = Opaque('file', 'infile')
        n_read = [0]

        def readline(it_, o, a, k):
            n_read[0] += 1
            raw = Opaque('rawline', 'line%d' % n_read[0])
            s = it_.fresh('stripped', StrS)
            raw.attrs['call:strip'] = lambda it2, o2, a2, k2: SV(s)
            if n_read[0] == 1:
                # a complete checkpoint file starts with its descriptor line (stream.func writes it first: C08)
                it_.assume(z3.Length(s) > 0)
            it_.emit(Ev('Call', target=o, method='readline', args=(), kwargs={}, result=raw, objs=()))
            return raw
        f.attrs['call:readline'] = readline
        nres = it.fresh('stored_nres', IntS)
        it.assume(nres >= 0)
        seq = SymSeq('stored_resources', it.fresh('stored_resources', IntS), lambda it_: (Opaque('resdesc', 'stored_resource_descriptor'), None))
        seq.length = nres
        stored = PyDict({'name': 'stored', 'resources': SymList(seq, [])})
        m = it.module('dataflows.helpers.extended_json')
        loads_calls = []

        def loads(it_, a, k):
            loads_calls.append(a[0])
            # the first line of a checkpoint file is the descriptor (non-empty): C08 / stream.func write it first
            return stored
        m.attrs['ejson'].methods['loads'] = UFunc('ejson.loads', loads, False)
        m.attrs['ejson'].methods['loads'].is_static = True
        func = it.call(un, [f])

        def r_end(it, env, cap, events):
            ys = yields_of(events)
            check(it, 'one-lazy-reader-per-listed-resource', len(ys) == 1 and isinstance(ys[0].obj, GenObj) and fn_named(ys[0].obj, 'res_reader'))
            check(it, 'handing-out-a-reader-reads-nothing', not calls(events, method='readline'))
            cover(it, 'reader-iter-reachable')
        it.loops['func#L0'] = LoopSpec(at_start=lambda it, env, x: None, at_end=r_end,
                                       at_exit=lambda it, env: it.path.info.__setitem__('exit_mark', len(it.path.events)))
        it.path.info['allowed_exc'] = {}
        n0 = len(it.path.events)
        it.run_generator(it.call(func, [Opaque('PackageWrapper', 'upstream_package')]))
        evs = it.path.events[n0:]
        first_loop = [i for i, e in enumerate(evs) if e.kind in ('Pull', 'Exhausted')]
        pre = evs[:first_loop[0]] if first_loop else evs
        ys = yields_of(pre)
        check(it, 'descriptor-line-read-once-before-anything-is-yielded', len(calls(pre, method='readline')) == 1 and len(loads_calls) == 1)
        ok = len(ys) == 1 and getattr(ys[0].obj, 'kind', None) == 'Package' and ys[0].obj.attrs.get('descriptor') is stored
        check(it, 'first-yield-is-a-package-of-exactly-the-stored-descriptor', ok)
        if 'exit_mark' in it.path.info:
            post = it.path.events[it.path.info['exit_mark']:]
            check(it, 'nothing-after-the-last-reader', not yields_of(post) and not calls(post, method='readline'))
    vc.explore(fk_func, thunk_func, min_paths=2)


def lib_cell():
    from pyvc.api import Cell
    return Cell


def sym_flow_preprocess(vc):
    """Flow._preprocess_chain: links are kept in order; a link with handle_flow_checkpoint receives the links accumulated so
    far and its return value replaces them"""
    from pyvc.api import real_function, check, cover, ufunc, Opaque, PyList
    fk = vc.under_contract('dataflows/base/flow.py', ['Flow', '_preprocess_chain'])
    for shape in ('plain', 'checkpoint-middle', 'two-checkpoints'):
        def thunk(it, shape=shape):
            F = real_function(it, 'dataflows.base.flow', 'Flow')
            a, b, c = ufunc('a'), ufunc('b'), ufunc('c')
            got = []

            def mk_cp(name):
                cp = Opaque('checkpoint', name)
                cp.attrs['__hasattr__'] = lambda it_, n: n == 'handle_flow_checkpoint'

                def h(it_, o, args, k):
                    got.append((name, list(args[0].items)))
                    return PyList([o])
                cp.attrs['call:handle_flow_checkpoint'] = h
                return cp
            for x in (a, b, c):
                x.hasattr_false = True
            if shape == 'plain':
                links = [a, b, c]
                want = [a, b, c]
            elif shape == 'checkpoint-middle':
                cp = mk_cp('cp')
                links = [a, b, cp, c]
                want = [cp, c]
            else:
                cp1, cp2 = mk_cp('cp1'), mk_cp('cp2')
                links = [a, cp1, b, cp2, c]
                want = [cp2, c]
            f = it.call(F, links)
            r = it.call(it.lib.getattr_(it, f, '_preprocess_chain'), [])
            check(it, 'chain-after-surgery[%s]' % shape, isinstance(r, PyList) and r.items == want)
            if shape == 'checkpoint-middle':
                check(it, 'checkpoint-receives-the-preceding-links-in-order', got == [('cp', [a, b])])
                # the same flow object chained again (run, delete the checkpoint, run): the checkpoint is handed its preceding
                # links AGAIN -- what it does with them depends on the file system then, not on the first chaining
                r2 = it.call(it.lib.getattr_(it, f, '_preprocess_chain'), [])
                check(it, 'every-chaining-hands-the-preceding-links-to-the-checkpoint-again', got == [('cp', [a, b]), ('cp', [a, b])] and
                      isinstance(r2, PyList) and r2.items == want)
            if shape == 'two-checkpoints':
                check(it, 'later-checkpoint-swallows-the-earlier-one', got == [('cp1', [a]), ('cp2', [got and links[1], b])])
        vc.explore(fk, thunk)


def nat_checkpoint_histories(h):
    import os, tempfile, shutil, datetime, decimal
    from dataflows import Flow, checkpoint, set_type
    for _ in range(h.n(12, 100)):
        d = tempfile.mkdtemp(prefix='c07_')
        try:
            n = h.rng.randint(0, 5)
            tz = datetime.timezone(datetime.timedelta(hours=h.rng.randint(-11, 12)))
            rows = [{'i': i, 'dec': decimal.Decimal('%d.%02d' % (i, i)), 'day': datetime.date(2020, 1, 1 + i),
                     'ts': datetime.datetime(2020, 1, 1, i, 2, 3, tzinfo=tz if i % 2 else None), 'txt': 'é%d' % i,
                     'arr': [i, 'x'], 'obj': {'k': i}} for i in range(n)]
            executed = []

            def mark(row):
                executed.append(1)
            two = h.rng.random() < 0.5

            def bump(row):
                row['i'] += 1000          # a later step that edits rows in place (not idempotent)

            def flow():
                steps = [[dict(r) for r in rows], mark, checkpoint('one', checkpoint_path=d), bump]
                if two:
                    steps += [mark, checkpoint('two', checkpoint_path=d), bump]
                return Flow(*steps)
            # "running it again": either a freshly built pipeline per run (a script started twice) or the very same Flow
            # object run again (a module-level pipeline run in a loop / retried)
            same_object = h.rng.random() < 0.5
            flow_ = flow
            if same_object:
                shared = flow()
                flow = lambda: shared          # noqa: E731
            r1 = h.run(lambda: flow().results())
            e1 = len(executed)
            r2 = h.run(lambda: flow().results())
            ok = r1[0] == 'ok' and r2[0] == 'ok' and r1[1][0] == r2[1][0] and r1[1][1].descriptor == r2[1][1].descriptor \
                and len(executed) == e1 and (n == 0 or r1[1][0] == [[dict(r, i=r['i'] + (2000 if two else 1000)) for r in rows]])
            h.check(ok, 'dataflows/processors/checkpoint.py::checkpoint', (rows, two, 'same object' if same_object else 'fresh objects'), 'second run equals first and executes nothing', (r1[:1], r2[:1], e1, len(executed)))
            shutil.rmtree(os.path.join(d, 'two' if two else 'one'))
            if two and h.rng.random() < 0.5:
                shutil.rmtree(os.path.join(d, 'one'))
            r3 = h.run(lambda: flow().results())
            h.check(r3[0] == 'ok' and r1[0] == 'ok' and r3[1][0] == r1[1][0], 'dataflows/processors/checkpoint.py::checkpoint',
                    (rows, two, 'after delete', 'same object' if same_object else 'fresh objects'), 'recomputed result equals first run', r3[:1])
            # an object whose FIRST run resumed (the checkpoint had been written by another flow object / an earlier process), then
            # the checkpoint is deleted and the same object runs again: it recomputes from its own steps
            other = flow_() if same_object else flow()
            resumer = flow_() if same_object else flow()
            executed[:] = []
            ra = h.run(lambda: other.results())
            ea = len(executed)
            rb = h.run(lambda: resumer.results())
            okb = ra[0] == 'ok' and rb[0] == 'ok' and rb[1][0] == ra[1][0] and len(executed) == ea
            for name in ('one', 'two'):
                shutil.rmtree(os.path.join(d, name), ignore_errors=True)
            rc = h.run(lambda: resumer.results())
            h.check(okb and rc[0] == 'ok' and rc[1][0] == ra[1][0] and rc[1][1].descriptor == ra[1][1].descriptor,
                    'dataflows/processors/checkpoint.py::checkpoint', (rows, two, 'first run of the object resumed, then delete, then run again'),
                    'recomputed result equals first run', (ra[:1], rb[:1], rc[:1], rc[1][0] if rc[0] == 'ok' else None))
        finally:
            shutil.rmtree(d, ignore_errors=True)
    # a checkpoint given its own `steps`, with links in front of it in the flow: the second run equals the first and runs nothing
    for front in (0, 1, 2):
        d = tempfile.mkdtemp(prefix='c07s_')
        try:
            ran = []

            def mark_a(row):
                ran.append('a')

            def mark_b(row):
                ran.append('b')

            def mk():
                links = []
                if front >= 1:
                    links += [[{'o': i} for i in range(3)], mark_a]
                if front >= 2:
                    links += [[{'p': 1}]]
                return Flow(*links, checkpoint('x', checkpoint_path=d, steps=[[{'r': 1.5}, {'r': 2.5}], mark_b]))
            r1 = h.run(lambda: mk().results())
            n1 = len(ran)
            r2 = h.run(lambda: mk().results())
            ok = r1[0] == 'ok' and r2[0] == 'ok' and r1[1][0] == r2[1][0] and len(ran) == n1 and \
                [x['name'] for x in r1[1][1].descriptor['resources']] == [x['name'] for x in r2[1][1].descriptor['resources']]
            h.check(ok, 'dataflows/processors/checkpoint.py::checkpoint', ('checkpoint with steps=, links in front', front), r1[1][0] if r1[0] == 'ok' else r1[:2],
                    (r2[1][0] if r2[0] == 'ok' else r2[:2], n1, len(ran)))
        finally:
            shutil.rmtree(d, ignore_errors=True)


from contracts.common import lazy_sym, lazy_nat   # noqa: E402

ITEMS = [
    Item('ejson.round-trip', sym_ejson_roundtrip, [('differential', nat_ejson), ('microseconds', nat_microseconds)], EJ + '::CommonJSONEncoder.default'),
    Item('stream.res_writer', S.sym_res_writer, [], 'dataflows/processors/stream.py::stream.res_writer'),
    Item('stream.func', S.sym_stream_func, [], 'dataflows/processors/stream.py::stream.func'),
    Item('unstream.res_reader', sym_res_reader, [], 'dataflows/processors/unstream.py::unstream.res_reader'),
    Item('unstream', S.sym_unstream, [], 'dataflows/processors/unstream.py::unstream'),
    Item('checkpoint', S.sym_checkpoint, [('histories', nat_checkpoint_histories)], 'dataflows/processors/checkpoint.py::checkpoint._preprocess_chain'),
    Item('Flow._preprocess_chain', sym_flow_preprocess, [], 'dataflows/base/flow.py::Flow._preprocess_chain'),
    Item('recorded-findings', None, [('bounded', KF.nat_findings_c07)], 'dataflows/processors/unstream.py::unstream.res_reader'),
    # a step that removes a resource behind an observer reads its rows to the end: the observer upstream (a checkpoint being written, a
    # dump) only completes that resource -- and a sequential reader only reaches the next one -- when its consumer exhausts it
    Item('delete_resource.drains', lazy_sym('C10', 'sym_delete_resource'), [], 'dataflows/processors/delete_resource.py::delete_resource.func'),
]
