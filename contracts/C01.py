"""C01  Lazy chained execution equals step-by-step evaluation of the same steps.

  Flow._chain        : left fold, one dispatch obligation per link kind for an arbitrary position of an arbitrarily long chain;
                       every link is chained onto the previous datastream or rejected -- no path leaves ds unchanged
  results/process/datastream : the same chain (_chain) behind all three
  DataStreamProcessor._process : upstream first and once; package from a DEEP COPY (upstream descriptor never written);
                       stats appended; errors wrapped (C04)
  helpers            : row / rows / package function protocols
  conditional        : true -> sub-flow on the very upstream datastream; false -> identity
  stage independence : every built-in stage's per-row step is a function of the row (and its own state) under an adversarial
                       consumer that may edit a yielded row before the stage resumes (ownership at yield): the C05 / C14 /
                       C15 / C16 / C17 contracts; with it, lazy interleaving cannot differ from materialised evaluation
"""
from contracts.common import Item
from contracts import base as BA, streams as S
from contracts import C10 as K10, C16 as K16

TRUSTED = ['T1 pyvc model of Python (DESIGN 3)', 'T3 copy.deepcopy yields an equal, disjoint tree', 'T4 datapackage.Package / Resource',
           'T16 z3 / cvc5']
ASSUMPTIONS = ['user callables are deterministic and touch nothing but the row / rows / package they are given',
               'positional pairing of streams and descriptors (get_iterator.func: zip_longest + ResourceWrapper asserts) is '
               'exercised by the bounded end-to-end run only']

from contracts.common import lazy_sym, lazy_nat   # noqa: E402

ITEMS = [
    Item('Flow._chain', BA.sym_flow_chain, [('lazy-vs-stepwise', BA.nat_lazy_vs_stepwise), ('cooperating-steps', BA.nat_cooperating_steps)],
         BA.B + 'flow.py::Flow._chain'),
    Item('Flow.api', BA.sym_flow_api, [], BA.B + 'flow.py::Flow.results'),
    Item('_process', BA.sym__process, [], BA.B + 'datastream_processor.py::DataStreamProcessor._process'),
    Item('helpers', BA.sym_helpers, [], 'dataflows/helpers/row_processor.py::row_processor.process_row'),
    Item('iterable_loader.errors', BA.sym_iterable_loader_errors, [], 'dataflows/helpers/iterable_loader.py::iterable_loader.handle_iterable'),
    Item('conditional', BA.sym_conditional, [], 'dataflows/processors/conditional.py::conditional._process'),
    Item('DataStreamProcessor.defaults', S.sym_dsp_base, [], BA.B + 'datastream_processor.py::DataStreamProcessor.process_resource'),
    Item('safe_process', BA.sym_safe_process, [], BA.B + 'datastream_processor.py::DataStreamProcessor.safe_process'),
    Item('process-results', BA.sym_process_results, [], BA.B + 'datastream_processor.py::DataStreamProcessor.process'),
    Item('get_iterator', BA.sym_get_iterator, [], BA.B + 'datastream_processor.py::DataStreamProcessor.get_iterator'),
    Item('get_res', BA.sym_get_res, [], BA.B + 'datastream_processor.py::DataStreamProcessor.get_res'),
    Item('ResourceWrapper', BA.sym_resource_wrapper, [], BA.B + 'resource_wrapper.py::ResourceWrapper.__init__'),
    # stage contracts the equivalence rests on: a stage that removes a resource reads its rows to the end (the next reader of a
    # sequential source starts where the previous one stopped), and a stage that adds a resource gives it a descriptor of its own
    # (R5: no sub-tree shared by two resources, or a later resource-scoped schema edit would rewrite both)
    Item('delete_resource.drains', K10.sym_delete_resource, [], 'dataflows/processors/delete_resource.py::delete_resource.func'),
    Item('duplicate.own-descriptor', K16.sym_duplicate_func, [], 'dataflows/processors/duplicate.py::duplicate.func'),
    Item('duplicate.saver', K16.sym_saver, [], 'dataflows/processors/duplicate.py::saver'),
    Item('core-objects', BA.sym_base_objects, [], BA.B + 'datastream.py::DataStream.merge_stats'),
    # join's index is written BEFORE the source row travels on (a later in-place edit of the row cannot reach what was stored)
    Item('join.indexer', lazy_sym('C11', 'sym_indexer'), [], 'dataflows/processors/join.py::join_aux.indexer'),
]

from contracts import reuse as _REUSE   # noqa: E402
ITEMS.append(Item('second-use', None, [('catalogue', _REUSE.nat_second_use_for('C01'))], 'dataflows/base/flow.py::Flow._chain'))
