"""C10  Resource selectors mean the same thing in every processor.

 (1) ResourceMatcher against the spec  match(sel, names, n):
        None -> True ; list -> n in sel ; int i -> n == names[i] (negative from the end, IndexError outside) ;
        str p -> FULL(p, n)   ("fully matches as a regular expression": re.fullmatch, dependency `re` uninterpreted)
 (2) for every processor that takes `resources`: per resource stream, for each selector form,
        unselected  => the SAME stream object is passed on, none of its rows is pulled, its descriptor is not written
        selected    => the processor's own transducer is applied to exactly that stream
     plus: one output per input stream, the package is yielded first, the resource stream is drained.
"""
from contracts.common import fn_named
from contracts.common import (same_stream, Item, mk_resource, mk_package, mk_package2, selector, dispatch_symbolic, gen_of,
                              expect_no_raise_or_same, tree_writes_under, _b)

TRUSTED = ['T1 pyvc model of Python (DESIGN 3)', 'T2 re: compile(p).fullmatch(s) is an uninterpreted predicate FULL(p, s)',
           'T16 z3 / cvc5']
ASSUMPTIONS = ['input invariant: every resource descriptor has a name and schema.fields (tabular resources)',
               'descriptor list and stream list carry the same names in the same order (established by C01 pairing)',
               ]

P = 'dataflows/processors/'


def _mk_matcher_item():
    def symbolic(vc):
        import z3
        from pyvc.api import real_function, check, cover, sym_str
        from pyvc.symex import PyExc
        fk = vc.under_contract('dataflows/helpers/resource_matcher.py', ['ResourceMatcher', '__init__'])
        fk2 = vc.under_contract('dataflows/helpers/resource_matcher.py', ['ResourceMatcher', 'match'])
        for kind in ('none', 'list', 'str', 'int'):
            for dpform in ('package', 'dict'):
                def thunk(it, kind=kind, dpform=dpform):
                    RM = real_function(it, 'dataflows.helpers.resource_matcher', 'ResourceMatcher')
                    sel, want = selector(it, kind)
                    pw = mk_package2(it)
                    dp = pw.attrs['pkg'] if dpform == 'package' else pw.attrs['pkg'].attrs['descriptor']
                    name = sym_str(it, 'name')
                    if kind == 'int':
                        i = sel.t
                        it.path.info['allowed_exc'] = {'IndexError': z3.Not(z3.And(i >= -pw.nres, i < pw.nres))}
                    m = it.call(RM, [sel, dp])
                    got = it.truth(it.call(it.lib.getattr_(it, m, 'match'), [name]))
                    check(it, 'match-is-spec[%s,%s]' % (kind, dpform), _b(got) == want(pw, name.t))
                    if kind == 'int':
                        i = sel.t
                        check(it, 'int-in-range-no-error', z3.And(i >= -pw.nres, i < pw.nres))
                    cover(it, 'reachable[%s,%s]' % (kind, dpform))
                paths = vc.explore(fk2, thunk)
                expect_no_raise_or_same(vc, fk2, paths)

    def native(h):
        import re
        from dataflows.helpers.resource_matcher import ResourceMatcher
        from datapackage import Package
        names_pool = ['a', 'ab', 'b', 'a.b', 'a-b', 'a\n', 'res_1', 'x|y']
        pats = ['a', 'a|b', 'a.b', 'a.*', '.*', 'res_.', '(a|b)', 'a\\.b', 'x\\|y', 'a$', '^a']
        for _ in range(h.n(120, 1200)):
            names = h.rng.sample(names_pool, h.rng.randint(1, 4))
            desc = {'resources': [{'name': n, 'path': 'p%d.csv' % i} for i, n in enumerate(names)]}
            form = h.rng.choice(['none', 'list', 'str', 'int'])
            dp = desc if h.rng.random() < 0.5 else Package(desc)
            if form == 'none':
                sel, want = None, (lambda n: True)
            elif form == 'list':
                sel = h.subset(names_pool, 0.4)
                want = (lambda n, sel=sel: n in sel)
            elif form == 'str':
                sel = h.rng.choice(pats)
                want = (lambda n, sel=sel: re.fullmatch(sel, n) is not None)
            else:
                sel = h.rng.randint(-5, 5)
                want = None
            r = h.run(lambda: ResourceMatcher(sel, dp))
            if form == 'int':
                inrange = -len(names) <= sel < len(names)
                if not inrange:
                    h.check(r[0] == 'exc' and r[1] == 'IndexError', 'ResourceMatcher', (sel, names), 'IndexError', r[:2])
                    continue
                want = (lambda n, t=names[sel]: n == t)
            if not h.check(r[0] == 'ok', 'ResourceMatcher', (sel, names), 'constructed', r[:2]):
                continue
            for n in names_pool:
                h.check(r[1].match(n) == want(n), 'dataflows/helpers/resource_matcher.py::ResourceMatcher.match',
                        (sel, names, n), want(n), r[1].match(n))
    def replay(h, cex, obligation):
        """the solver's counterexample of a failed matcher obligation: selector, package (resource names by position), name"""
        import re as _re
        from contracts import replayers as R
        from dataflows.helpers.resource_matcher import ResourceMatcher
        from datapackage import Package
        m = _re.search(r'\[(none|list|str|int),(package|dict)\]', obligation)
        if not m:
            return 'not-concretisable'
        kind, dpform = m.groups()
        name = R.scalar(cex, 'name', '')
        nres = R.scalar(cex, 'pkg.nres', 0) or 0
        if not isinstance(nres, int) or nres > 40:
            return 'not-concretisable'
        resname, _ = R.func(cex, 'resname')
        names = [resname(i) for i in range(nres)]
        if any(not isinstance(n, str) for n in names):
            names = ['r%d' % i if not isinstance(n, str) else n for i, n in enumerate(names)]
        desc = {'resources': [{'name': n, 'path': 'p%d.csv' % i} for i, n in enumerate(names)]}
        dp = desc if dpform == 'dict' else Package(desc)
        if kind == 'none':
            sel, want = None, True
        elif kind == 'list':
            sel = [x for x in (R.scalar(cex, 'sel') or []) if isinstance(x, str)]
            want = name in sel
        elif kind == 'str':
            sel = R.scalar(cex, 'selpat', '')
            try:
                want = _re.fullmatch(sel, name) is not None
            except _re.error:
                return 'not-concretisable'
        else:
            sel = R.scalar(cex, 'selidx', 0)
            if not (-nres <= sel < nres):
                r = h.run(lambda: ResourceMatcher(sel, dp))
                h.check(r[0] == 'exc' and r[1] == 'IndexError', 'dataflows/helpers/resource_matcher.py::ResourceMatcher.__init__',
                        dict(selector=sel, names=names), 'IndexError', r[:2])
                return
            want = name == names[sel]
        r = h.run(lambda: ResourceMatcher(sel, dp).match(name))
        h.check(r[0] == 'ok' and bool(r[1]) == want, 'dataflows/helpers/resource_matcher.py::ResourceMatcher.match',
                dict(selector=sel, resource_names=names, name=name, package_given_as=dpform), want, r[:2])
    return Item('ResourceMatcher', symbolic, [('differential', native)], 'dataflows/helpers/resource_matcher.py::ResourceMatcher.match',
                replay=replay)


def _closure_item(name, relfile, maker, inner, dotted, maker_args, matched_ok, stream_loop, pkg_loop=None, kinds=None,
                  passes=None):
    def symbolic(vc):
        kw = {}
        if kinds:
            kw['kinds'] = kinds
        dispatch_symbolic(vc, P + relfile, [maker, inner], dotted, maker, maker_args, matched_ok,
                          stream_loop=stream_loop, pkg_loop=pkg_loop, passes=passes, **kw)
    return Item(name, symbolic, [], '%s%s::%s.%s' % (P, relfile, maker, inner))


def _uf(name):
    from pyvc.api import ufunc
    return ufunc(name)


def yields_raw_stream(it, env, r, y, events):
    """update_resource / update_schema / set_primary_key: the selected stream's row iterator is passed on untouched"""
    return y.obj is r.attrs['it'] and not r.stream.drained


def _props(it):
    from pyvc.api import Opaque
    return Opaque('propsdict', 'props')


def sym_update_props_not_shared(vc):
    """update_schema / update_resource: a structured value (a fields list, a schema dict) given as a keyword argument is stored in
    each selected resource as a value of that resource's own -- never the caller's object, which would then sit in several
    descriptors at once so that a later step restricted to ONE resource (set_type, rename_fields edit fields in place) rewrites the
    others: "every other resource passes through with identical descriptor" """
    from pyvc.api import real_function, LoopSpec, check, cover, PyList, PyDict
    from contracts.common import tree_writes_under
    for which in ('update_schema', 'update_resource'):
        fk = vc.under_contract(P + which + '.py', [which, 'func'])

        def thunk(it, which=which):
            maker = real_function(it, 'dataflows.processors.' + which, which)
            f0 = PyDict({'name': 'id', 'type': 'integer'})
            fl = PyList([f0])
            sch = PyDict({'fields': fl})
            func = it.call(maker, [None], dict(fields=fl) if which == 'update_schema' else dict(schema=sch))
            package = mk_package2(it)

            def reach(v, seen=None):
                """objects reachable from a stored value"""
                seen = [] if seen is None else seen
                if any(v is s for s in seen):
                    return seen
                seen.append(v)
                if isinstance(v, PyList):
                    for x in v.items:
                        reach(x, seen)
                elif isinstance(v, PyDict):
                    for x in v.d.values():
                        reach(x, seen)
                return seen

            def at_end(it, env, rd, events):
                ws = [e for e in tree_writes_under(events, rd) if e.kind == 'TreeWrite']
                check(it, 'selected-resource-gets-the-property[%s]' % which, len(ws) == 1)
                for e in ws:
                    objs = reach(e.value)
                    check(it, 'stored-value-is-the-resources-own-not-the-callers-object[%s]' % which,
                          not any(o is c for o in objs for c in (f0, fl, sch)))
                    check(it, 'stored-value-has-the-given-content[%s]' % which, isinstance(e.value, (PyList, PyDict)) and
                          (e.value.items[0].d == f0.d if which == 'update_schema' else e.value.d['fields'].items[0].d == f0.d))
                cover(it, 'iter-reachable[%s]' % which)
            it.loops['func#L0'] = LoopSpec(at_start=lambda it, env, rd: rd, at_end=at_end)
            it.loops['func#L1'] = LoopSpec(modes=('exit',))
            it.run_generator(it.call(func, [package]))
            check(it, 'callers-arguments-left-as-given[%s]' % which, f0.d == {'name': 'id', 'type': 'integer'} and fl.items == [f0] and
                  sch.d == {'fields': fl})
        vc.explore(fk, thunk, min_paths=2)


def sym_delete_resource(vc):
    """delete_resource: selected streams are dropped AND drained; unselected pass as the same object"""
    import z3
    from pyvc.api import real_function, LoopSpec, check, cover, yields_of
    fk = vc.under_contract(P + 'delete_resource.py', ['delete_resource', 'func'])
    for kind in ('list', 'str', 'int', 'none'):
        for mode in ('unselected', 'selected'):
            if kind == 'none' and mode == 'unselected':
                continue

            def thunk(it, kind=kind, mode=mode):
                maker = real_function(it, 'dataflows.processors.delete_resource', 'delete_resource')
                sel, want = selector(it, kind)
                func = it.call(maker, [sel])
                package = mk_package2(it)
                if kind == 'int':
                    i = sel.t
                    it.path.info['allowed_exc'] = {'IndexError': z3.Not(z3.And(i >= -package.nres, i < package.nres))}

                def at_start(it, env, r):
                    m = want(package, r.attrs['res'].attrs['name'].t)
                    it.assume(m if mode == 'selected' else z3.Not(m))
                    return r

                def at_end(it, env, r, events):
                    ys = yields_of(events)
                    tag = '%s,%s' % (kind, mode)
                    if mode == 'unselected':
                        check(it, 'unselected-same-object[%s]' % tag, len(ys) == 1 and same_stream(it, ys[0].obj, r))
                        check(it, 'unselected-rows-not-pulled[%s]' % tag, r.stream.drained is False)
                    else:
                        check(it, 'selected-dropped[%s]' % tag, len(ys) == 0)
                        check(it, 'selected-drained[%s]' % tag, bool([e for e in events if e.kind == 'Drain' and e.src in (r, r.stream)]))
                    cover(it, 'iter-reachable[%s]' % tag)
                it.loops['func#L0'] = LoopSpec(at_start=at_start, at_end=at_end)
                it.run_generator(it.call(func, [package]))
                ys = yields_of(it.path.events)
                check(it, 'first-yield-is-package[%s]' % kind, len(ys) == 1 and ys[0].obj is package.attrs['pkg'])
                check(it, 'drains-package[%s]' % kind, package.stream.drained is True)
            paths = vc.explore(fk, thunk, min_paths=2)
            expect_no_raise_or_same(vc, fk, paths)


def sym_validate(vc):
    """validate.process_resource: selected -> yield from validator(res) ; unselected -> rows re-yielded unchanged"""
    import z3
    from pyvc.api import real_function, check, cover, yields_of, LoopSpec, ufunc, same_row
    fk = vc.under_contract(P + 'validate.py', ['validate', 'process_resource'])
    vc.under_contract(P + 'validate.py', ['validate', 'process_datapackage'])
    vc.under_contract('dataflows/base/datastream_processor.py', ['DataStreamProcessor', 'process_resource'])
    for kind in ('list', 'str', 'int', 'none'):
        for mode in ('unselected', 'selected'):
            if kind == 'none' and mode == 'unselected':
                continue

            def thunk(it, kind=kind, mode=mode):
                V = real_function(it, 'dataflows.processors.validate', 'validate')
                sel, want = selector(it, kind)
                v = it.call(V, [], dict(resources=sel))
                pw = mk_package2(it)
                if kind == 'int':
                    i = sel.t
                    it.path.info['allowed_exc'] = {'IndexError': z3.Not(z3.And(i >= -pw.nres, i < pw.nres))}
                dp = pw.attrs['pkg']
                out_dp = it.call(it.lib.getattr_(it, v, 'process_datapackage'), [dp])
                check(it, 'package-returned-unchanged[%s]' % kind, out_dp is dp and not
                      [e for e in it.path.events if e.kind in ('TreeWrite', 'TreeUpdate', 'Append')])
                r = mk_resource(it, 'res')
                m = want(pw, r.attrs['res'].attrs['name'].t)
                it.assume(m if mode == 'selected' else z3.Not(m))
                tag = '%s,%s' % (kind, mode)
                n0 = len(it.path.events)

                def at_start(it, env, row):
                    return row.snapshot(), row

                def at_end(it, env, cap, events):
                    snap, row = cap
                    ys = yields_of(events)
                    check(it, 'unselected-row-passes-unchanged[%s]' % tag,
                          _b(len(ys) == 1 and ys[0].obj is row) if len(ys) != 1 else
                          z3.And(_b(ys[0].obj is row), same_row(ys[0].value, snap)))
                    cover(it, 'row-iter-reachable[%s]' % tag)
                if mode == 'unselected':
                    # (only an unselected resource reaches the default row loop of the base class)
                    it.loops['DataStreamProcessor.process_resource#L0'] = LoopSpec(at_start=at_start, at_end=at_end)
                g = it.call(it.lib.getattr_(it, v, 'process_resource'), [r])
                it.run_generator(g)
                evs = it.path.events[n0:]
                yf = [e for e in evs if e.kind == 'YieldFrom']
                if mode == 'selected':
                    ok = len(yf) == 1 and getattr(yf[0].src, 'fn', None) is not None and \
                        fn_named(yf[0].src, 'func') and 'validate_with_schema' in yf[0].src.fn.qualname and \
                        any(a is r for a in yf[0].src.args)
                    check(it, 'selected-validated[%s]' % tag, ok)
                else:
                    check(it, 'unselected-not-validated[%s]' % tag, len(yf) == 0)
                    check(it, 'unselected-drains[%s]' % tag, r.stream.drained is True)
            paths = vc.explore(fk, thunk, min_paths=1, inline={'DataStreamProcessor.process_resource'})
            expect_no_raise_or_same(vc, fk, paths)


def sym_set_type(vc):
    """set_type: process_datapackage edits only selected resources' matching fields; process_resources wraps only those"""
    import z3
    from pyvc.api import real_function, check, cover, yields_of, LoopSpec, GenObj, sym_str, Stream, PyDict
    fk = vc.under_contract(P + 'set_type.py', ['set_type', 'process_resources'])
    fk2 = vc.under_contract(P + 'set_type.py', ['set_type', 'process_datapackage'])
    for kind in ('list', 'str', 'int', 'none'):
        for mode in ('unselected', 'selected'):
            if kind == 'none' and mode == 'unselected':
                continue

            def thunk(it, kind=kind, mode=mode):
                ST = real_function(it, 'dataflows.processors.set_type', 'set_type')
                sel, want = selector(it, kind)
                st = it.call(ST, [sym_str(it, 'fieldpat')], dict(resources=sel, type='string'))
                pw = mk_package2(it)
                if kind == 'int':
                    i = sel.t
                    it.path.info['allowed_exc'] = {'IndexError': z3.Not(z3.And(i >= -pw.nres, i < pw.nres))}
                it.path.info['allowed_exc'] = dict(it.path.info.get('allowed_exc', {}))
                it.path.info['allowed_exc']['AssertionError'] = z3.BoolVal(True)   # "Failed to find field": outside C10
                tag = '%s,%s' % (kind, mode)

                def p_start(it, env, rd):
                    m = want(pw, rd.children['name'].t)
                    it.assume(m if mode == 'selected' else z3.Not(m))
                    return rd

                def p_end(it, env, rd, events):
                    if mode == 'unselected':
                        check(it, 'pkgphase-unselected-descriptor-untouched[%s]' % tag, not tree_writes_under(events, rd))
                        check(it, 'pkgphase-unselected-no-fields-registered[%s]' % tag,
                              not [e for e in events if e.kind == 'Append'])
                    cover(it, 'pkgphase-iter-reachable[%s]' % tag)
                it.loops['set_type.process_datapackage#L0'] = LoopSpec(at_start=p_start, at_end=p_end)
                it.call(it.lib.getattr_(it, st, 'process_datapackage'), [pw.attrs['pkg']])
                # stream phase
                resources = Stream('resources', lambda it_: mk_resource(it_, 'r'))

                def at_start(it, env, r):
                    m = want(pw, r.attrs['res'].attrs['name'].t)
                    it.assume(m if mode == 'selected' else z3.Not(m))
                    return r

                def at_end(it, env, r, events):
                    ys = yields_of(events)
                    if len(ys) != 1:
                        check(it, 'one-output-per-resource[%s]' % tag, False)
                        return
                    y = ys[0].obj
                    if mode == 'unselected':
                        check(it, 'unselected-same-object[%s]' % tag, same_stream(it, y, r))
                        check(it, 'unselected-rows-not-pulled[%s]' % tag, r.stream.drained is False)
                    else:
                        # selected: either no field of this resource matched (passes as is) or the validator wraps it
                        ok = (y is r) or (isinstance(y, GenObj) and fn_named(y, 'schema_validator'))
                        check(it, 'selected-validated-or-untouched[%s]' % tag, ok)
                    cover(it, 'iter-reachable[%s]' % tag)
                it.loops['set_type.process_resources#L0'] = LoopSpec(at_start=at_start, at_end=at_end)
                it.run_generator(it.call(it.lib.getattr_(it, st, 'process_resources'), [resources]))
                check(it, 'drains[%s]' % kind, resources.drained is True)
            paths = vc.explore(fk, thunk, min_paths=2)
            expect_no_raise_or_same(vc, fk, paths)


def nat_pipeline(h):
    """bounded end-to-end differential: every selector-taking processor x selector form on real packages;
    non-selected resources must come out identical (descriptor and rows) to a run without the step."""
    import re
    from dataflows import (Flow, filter_rows, deduplicate, sort_rows, find_replace, delete_fields, select_fields,
                           rename_fields, add_computed_field, update_resource, update_schema, set_primary_key, unpivot,
                           set_type, validate, printer, delete_resource, concatenate)
    names_sets = [['a', 'ab', 'b'], ['x', 'x.y', 'xzy'], ['r1', 'r2'], ['a|b', 'a', 'b', 'ab']]
    procs = {
        'filter_rows': lambda s: filter_rows(condition=lambda row: row['v'] > 1, resources=s),
        'deduplicate': lambda s: deduplicate(resources=s),
        'sort_rows': lambda s: sort_rows('{v}', resources=s, reverse=True),
        'find_replace': lambda s: find_replace([dict(name='t', patterns=[dict(find='t', replace='T')])], resources=s),
        'delete_fields': lambda s: delete_fields(['t'], resources=s),
        'select_fields': lambda s: select_fields(['v'], resources=s),
        'rename_fields': lambda s: rename_fields({'t': 'tt'}, resources=s),
        'add_computed_field': lambda s: add_computed_field(target='w', operation='constant', with_='k', resources=s),
        'update_resource': lambda s: update_resource(s, title='T'),
        'update_schema': lambda s: update_schema(s, missingValues=['', 'x']),
        'set_primary_key': lambda s: set_primary_key(['v'], resources=s),
        'unpivot': lambda s: unpivot([dict(name='t', keys=dict(k='t'))], [dict(name='k', type='string')],
                                     dict(name='val', type='string'), resources=s),
        'set_type': lambda s: set_type('v', type='number', resources=s),
        'validate': lambda s: validate(resources=s),
        'printer': lambda s: printer(resources=s),
        # whole-resource steps: the selected ones are merged / dropped, every other resource passes through as it was
        'concatenate': lambda s: concatenate({'v': [], 't': []}, dict(name='merged_target', path='merged_target.csv'), resources=s),
        'delete_resource': lambda s: delete_resource(s),
    }
    for _ in range(h.n(72, 600)):
        names = h.rng.choice(names_sets)
        data = [[dict(v=h.rng.randint(0, 3), t='t%d' % j) for j in range(h.rng.randint(0, 4))] for _ in names]
        form = h.rng.choice(['list', 'str', 'int', 'none'])
        if form == 'none':
            sel, selected = None, set(names)
        elif form == 'list':
            sel = h.subset(names, 0.5)
            selected = set(sel)
        elif form == 'str':
            sel = h.rng.choice([re.escape(names[0]), names[0], '.*', names[0] + '.*', 'a|b'])
            selected = {n for n in names if re.fullmatch(sel, n)}
        else:
            sel = h.rng.randint(-len(names), len(names) - 1)
            selected = {names[sel]}
        pname = h.rng.choice(sorted(procs))
        base = [Flow(*[it for d, n in zip(data, names) for it in ([dict(r) for r in d], update_resource(-1, name=n))])]

        # an earlier step may have given all resources one and the same schema value (update_schema / update_resource with a
        # structured argument): a later step restricted to some resources must still leave the others alone
        shared = h.rng.choice([None, None, 'update_schema', 'update_resource'])
        flds = [{'name': 'v', 'type': 'integer'}, {'name': 't', 'type': 'string'}]
        pre = [] if shared is None or not all(data) else \
            [update_schema(None, fields=flds) if shared == 'update_schema' else update_resource(None, schema={'fields': flds})]

        def run(extra):
            flow = Flow(*[x for d, n in zip(data, names) for x in ([dict(r) for r in d], update_resource(-1, name=n))],
                        *pre, *extra)
            res, dp, _ = flow.results()
            return {r['name']: (r, rows) for r, rows in zip(dp.descriptor['resources'], res)}
        ref = h.run(lambda: run([]))
        got = h.run(lambda: run([procs[pname](sel)]))
        if ref[0] != 'ok':
            continue
        if got[0] != 'ok':
            # a step may legitimately fail on the selected resources (e.g. select_fields finds nothing, concatenate refuses a
            # selection that is not consecutive); the frame claim is about successful runs.  A run that dies because streams and
            # descriptors no longer pair up is not such a rejection.
            cause = getattr(got[2], 'cause', got[2])
            broken = 'non-iterator' in str(cause) or isinstance(cause, (StopIteration, RuntimeError)) or \
                (pname in ('concatenate', 'delete_resource') and not isinstance(cause, AssertionError) and bool(selected))
            h.check(not broken, P + pname, (pname, sel, names, data), 'runs, or rejects the configuration', (got[1], str(cause)[:200]))
            continue
        for n in names:
            if n in selected:
                continue
            h.check(n in got[1] and got[1][n] == ref[1][n], P + pname, (pname, sel, names, data, shared),
                    ref[1].get(n), got[1].get(n), note='non-selected resource %r changed' % n)


def nat_whole_resource_steps(h):
    """bounded, deterministic: the two steps that remove / merge WHOLE resources, for selections with gaps, in every selector form:
    the step either refuses the selection, or every non-selected resource comes out with its own descriptor and its own rows (and
    the target of concatenate holds exactly the rows of the selected ones, in order)"""
    import re
    from dataflows import Flow, update_resource, delete_resource, concatenate
    layouts = [['a', 'b', 'c'], ['y2019', 'notes', 'y2020'], ['res_1', 'res', 'res_12', 'z'], ['p', 'q', 'p2', 'r', 'p3']]
    for names in layouts[h.shard[0]::h.shard[1]]:       # (one layout per shard: the runs of a shard are deterministic)
        data = [[dict(v=10 * k + j, t='%s%d' % (n, j)) for j in range(2 + k % 2)] for k, n in enumerate(names)]
        sels = [[names[0], names[2]], [names[2], names[0]], re.escape(names[0]) + '|' + re.escape(names[2]), names[0][0] + '.*',
                [names[0], names[1]], [names[1]], 1, -1, None, [names[-1], names[0]], [], 'matches-nothing', ['not-there']]

        def run(extra):
            flow = Flow(*[x for d, n in zip(data, names) for x in ([dict(r) for r in d], update_resource(-1, name=n))], *extra)
            res, dp, _ = flow.results()
            return [(r['name'], r, rows) for r, rows in zip(dp.descriptor['resources'], res)]
        ref = {n: (r, rows) for n, r, rows in run([])}
        for sel in sels:
            if sel is None:
                selected = list(names)
            elif isinstance(sel, list):
                selected = [n for n in names if n in sel]
            elif isinstance(sel, int):
                selected = [names[sel]]
            else:
                selected = [n for n in names if re.fullmatch(sel, n)]
            for pname in ('concatenate', 'delete_resource'):
                step = concatenate({'v': [], 't': []}, dict(name='merged', path='merged.csv'), resources=sel) if pname == 'concatenate' \
                    else delete_resource(sel)
                got = h.run(lambda: run([step]))
                if got[0] != 'ok':
                    cause = getattr(got[2], 'cause', got[2])
                    h.check(isinstance(cause, AssertionError), P + pname + '.py', (pname, sel, names), 'runs, or refuses the selection',
                            (got[1], str(cause)[:200]))
                    continue
                out = {n: (r, rows) for n, r, rows in got[1]}
                order = [n for n, _, _ in got[1]]
                for n in names:
                    if n in selected:
                        h.check(n not in out or pname == 'concatenate' and n == 'merged', P + pname + '.py', (pname, sel, names, n),
                                'selected resource gone', order)
                    else:
                        h.check(n in out and out[n] == ref[n], P + pname + '.py', (pname, sel, names, n), ref[n][1], out.get(n, (None, None))[1],
                                note='non-selected resource %r changed' % n)
                if pname == 'concatenate':
                    # (a selection that matches nothing concatenates nothing: the target is an empty resource)
                    want = [dict(v=r['v'], t=r['t']) for n in selected for r in ref[n][1]]
                    h.check('merged' in out and out['merged'][1] == want, P + 'concatenate.py::concatenate.func', (sel, names), want,
                            out.get('merged', (None, None))[1])
                h.check([n for n in order if n != 'merged'] == [n for n in names if n not in selected], P + pname + '.py', (pname, sel, names),
                        'the other resources keep their order', order)


nat_pipeline.shards = 6
nat_whole_resource_steps.shards = 4


def sym_add_field(vc):
    """add_field(name, type, default, resources=R, **options) is add_computed_field with the SAME selector R -- whatever it is: 0
    and [] are selectors, not "no selector" --, the target {name, type, **options}, and as operation the default itself when it is
    callable, else a function returning it"""
    from pyvc.api import real_function, check, cover, UFunc, Opaque, PyList, PyDict, sym_str, sym_int, ufunc, sym_row
    fk = vc.under_contract(P + 'add_field.py', ['add_field'])
    for kind in ('zero', 'none', 'empty-list', 'name', 'index', 'list', 'callable-default'):
        def thunk(it, kind=kind):
            m = it.module('dataflows.processors.add_field')
            got = {}

            def acf(it_, a, k):
                got['a'], got['k'] = a, k
                return Opaque('step', 'computed_field_step')
            m.attrs['add_computed_field'] = UFunc('add_computed_field', acf, False)
            sel = {'zero': 0, 'none': None, 'empty-list': PyList([]), 'name': sym_str(it, 'res'), 'index': sym_int(it, 'idx'),
                   'list': PyList([sym_str(it, 'r1'), sym_str(it, 'r2')]), 'callable-default': -1}[kind]
            default = ufunc('default_fn') if kind == 'callable-default' else sym_str(it, 'default')
            name = sym_str(it, 'fname')
            step = it.call(m.attrs['add_field'], [name, 'string', default], dict(resources=sel, title='T'))
            k = got.get('k', {})
            check(it, 'the-selector-is-handed-on-as-given[%s]' % kind, 'resources' in k and (k['resources'] is sel if not isinstance(sel, int)
                  else (isinstance(k['resources'], int) and not isinstance(k['resources'], bool) and k['resources'] == sel)))
            t = k.get('target')
            check(it, 'target-is-name-type-and-the-options[%s]' % kind, isinstance(t, PyDict) and t.d.get('name') is name and
                  t.d.get('type') == 'string' and t.d.get('title') == 'T' and set(t.d) == {'name', 'type', 'title'})
            op = k.get('operation')
            if kind == 'callable-default':
                check(it, 'a-callable-default-is-the-operation[%s]' % kind, op is default)
            else:
                r = it.call(op, [sym_row(it, 'row')]) if op is not None else None
                check(it, 'a-constant-default-is-what-the-operation-returns[%s]' % kind, r is default)
            # (nothing of its own is wrapped around it: what add_field does to a package is what that step does)
            check(it, 'the-step-returned-is-the-computed-field-step[%s]' % kind, isinstance(step, Opaque) and step.name == 'computed_field_step'
                  and not got.get('a'))
            cover(it, 'reachable[%s]' % kind)
        vc.explore(fk, thunk)


def _items():
    items = [_mk_matcher_item()]

    def cond_args(it, sel):
        return [], dict(condition=_uf('condition'), resources=sel)
    items.append(_closure_item('filter_rows.func', 'filter_rows.py', 'filter_rows', 'func', 'dataflows.processors.filter_rows',
                               cond_args, gen_of({'process_resource'}), 'func#L0'))
    items.append(_closure_item('deduplicate.func', 'deduplicate.py', 'deduplicate', 'func', 'dataflows.processors.deduplicate',
                               lambda it, sel: ([], dict(resources=sel)), gen_of({'deduper'}), 'func#L0'))
    items.append(_closure_item('sort_rows.func', 'sort_rows.py', 'sort_rows', 'func', 'dataflows.processors.sort_rows',
                               lambda it, sel: ([_uf('keyfn')], dict(resources=sel)), gen_of({'_sorter'}), 'func#L0'))

    def fr_args(it, sel):
        from pyvc.api import PyList
        return [PyList([])], dict(resources=sel)
    items.append(_closure_item('find_replace.func', 'find_replace.py', 'find_replace', 'func', 'dataflows.processors.find_replace',
                               fr_args, gen_of({'_find_replace'}), 'func#L0'))
    items.append(_closure_item('parallelize.func', 'parallelize.py', 'parallelize', 'func', 'dataflows.processors.parallelize',
                               lambda it, sel: ([_uf('row_func')], dict(num_processors=2, resources=sel)), gen_of({'fork'}),
                               'func#L0'))
    for nm in ('update_resource', 'update_schema'):
        items.append(_closure_item(nm + '.func', nm + '.py', nm, 'func', 'dataflows.processors.' + nm,
                                   lambda it, sel: ([sel], dict(title='x')), yields_raw_stream, 'func#L1', pkg_loop='func#L0'))
    items.append(_closure_item('set_primary_key.func', 'set_primary_key.py', 'set_primary_key', 'func',
                               'dataflows.processors.set_primary_key',
                               lambda it, sel: ([__import__('pyvc.api').api.PyList(['id'])], dict(resources=sel)),
                               yields_raw_stream, 'func#L1', pkg_loop='func#L0'))

    def strs(it, sel, n=1):
        from pyvc.api import PyList, sym_str
        return PyList([sym_str(it, 'f%d' % i) for i in range(n)])
    items.append(_closure_item('delete_fields.func', 'delete_fields.py', 'delete_fields', 'func', 'dataflows.processors.delete_fields',
                               lambda it, sel: ([strs(it, sel)], dict(resources=sel)), gen_of({'process_resource'}),
                               'func#L3', pkg_loop='func#L0'))
    items.append(_closure_item('select_fields.func', 'select_fields.py', 'select_fields', 'func', 'dataflows.processors.select_fields',
                               lambda it, sel: ([strs(it, sel)], dict(resources=sel)), gen_of({'process_resource'}),
                               'func#L3', pkg_loop='func#L0'))

    def rn_args(it, sel):
        from pyvc.api import PyDict, sym_str
        return [PyDict({sym_str(it, 'src'): sym_str(it, 'tgt')})], dict(resources=sel)
    items.append(_closure_item('rename_fields.func', 'rename_fields.py', 'rename_fields', 'func', 'dataflows.processors.rename_fields',
                               rn_args, gen_of({'process_resource'}), 'func#L3', pkg_loop='func#L0'))

    def acf_args(it, sel):
        from pyvc.api import sym_str
        return [], dict(resources=sel, target=sym_str(it, 'target'), operation='constant', with_=sym_str(it, 'with'))
    items.append(_closure_item('add_computed_field.func', 'add_computed_field.py', 'add_computed_field', 'func',
                               'dataflows.processors.add_computed_field', acf_args, gen_of({'process_resource'}),
                               'func#L1', pkg_loop='func#L0'))

    def unp_args(it, sel):
        from pyvc.api import PyList, PyDict, sym_str, sym_row
        uf = PyList([PyDict({'name': sym_str(it, 'uname'), 'keys': PyDict({'k': sym_str(it, 'kval')})})])
        return [uf, PyList([PyDict({'name': 'k', 'type': 'string'})]), PyDict({'name': sym_str(it, 'vname'), 'type': 'any'})], \
            dict(resources=sel)
    items.append(_closure_item('unpivot.func', 'unpivot.py', 'unpivot', 'func', 'dataflows.processors.unpivot',
                               unp_args, gen_of({'unpivot_rows'}), 'func#L4', pkg_loop='func#L0'))
    items.append(Item('add_field', sym_add_field, [], P + 'add_field.py::add_field'))
    items.append(Item('update-props-not-shared', sym_update_props_not_shared, [], P + 'update_schema.py::update_schema.func'))
    items.append(Item('delete_resource.func', sym_delete_resource, [], P + 'delete_resource.py::delete_resource.func'))
    items.append(Item('validate', sym_validate, [], P + 'validate.py::validate.process_resource'))
    items.append(Item('set_type', sym_set_type, [], P + 'set_type.py::set_type.process_resources'))
    def pr_args(it, sel):
        return [], dict(resources=sel, header_print=_uf('header_print'), table_print=_uf('table_print'))
    items.append(_closure_item('printer.step', 'printer.py', 'printer', 'step', 'dataflows.processors.printer', pr_args,
                               gen_of({'func'}), 'step#L0'))
    # load of a (descriptor, iterators) pair: the selector keeps its meaning (also 0, [] and ''); contract in contracts/C13.py
    items.append(Item('load.tuple-source', lambda vc: __import__('contracts.C13', fromlist=['sym_tuple_source']).sym_tuple_source(vc), [],
                      P + 'load.py::load.safe_process_datapackage'))
    # duplicate gives the copy a descriptor of its own (a later step that selects ONE of the twins edits one schema)
    from contracts.common import lazy_sym
    items.append(Item('duplicate.own-descriptor', lazy_sym('C16', 'sym_duplicate_func'), [], P + 'duplicate.py::duplicate.func'))
    items.append(Item('pipeline', None, [('frame-differential', nat_pipeline), ('whole-resource-steps', nat_whole_resource_steps)], None))
    from contracts import natives as NAT
    items.append(Item('load.pair', None, [('sequential-source-selectors', NAT.nat_load_pair_selectors)],
                      P + 'load.py::load.safe_process_datapackage'))
    return items


ITEMS = _items()

from contracts import reuse as _REUSE   # noqa: E402
ITEMS.append(Item('second-use', None, [('catalogue', _REUSE.nat_second_use_for('C10'))], 'dataflows/helpers/resource_matcher.py::ResourceMatcher.__init__'))
