"""C17  filter_rows, deduplicate and unpivot neither lose nor invent data.

Contracts (each real generator is proved to refine a transducer `step`, per iteration, for an arbitrary row and an
arbitrary loop state; by the snoc law  T(xs ++ [x]) = T(xs) ++ step(x)  this gives the whole-stream statement):
  filter_rows.process_resource   = filter(truthy . condition)                       (exactly the satisfying subsequence)
  filter_rows.old_style_conditions.func(row) = any equals-pair holds or any not_equals-pair holds
  deduplicate.deduper            = first-of-key transducer over the primary key; identity when there is no key
  unpivot.unpivot_rows           = flat-map: one fresh row per (input row, unpivoted field) = keys U kept cells U {value}
  *.func                         = dispatch: selected resources get the transducer, all others pass as the same object
"""
from contracts import findings_natives as KF
from contracts.common import (Item, mk_resource, mk_package, run_spec, ghost_row, expect_no_raise_or_same,
                              dispatch_symbolic, gen_of)

TRUSTED = ['T1 pyvc model of Python (DESIGN 3)', 'T2 re (unpivot key derivation: re.sub / fullmatch uninterpreted)',
           'T3 copy.deepcopy yields an equal, disjoint object', 'T16 z3 / cvc5']
ASSUMPTIONS = ['user `condition` callable is a pure function of the row contents',
               'cross-type equality of cells (1 == True == 1.0) is modelled structurally; code and spec use the same =='
               ]

SPEC = '''
def filter_step(row, condition):
    if condition(row):
        return [row]
    return []


def old_style(row, equals, not_equals):
    return any(row[k] == v for o in equals for k, v in o.items()) or \
        any(row[k] != v for o in not_equals for k, v in o.items())


def dedup_step(seen, row, pk):
    key = tuple(row[k] for k in pk)
    if key in seen:
        return [], seen
    return [row], seen | {key}


def unpivot_one(row, unpivot_field, fields_to_keep, value_name):
    out = dict(unpivot_field['keys'])
    for f in fields_to_keep:
        out[f] = row[f]
    out[value_name] = row.get(unpivot_field['name'])
    return out
'''


# ------------------------------------------------------------------------------------------------ filter_rows

def sym_filter_process_resource(vc):
    from pyvc.api import (SpecModule, real_function, ufunc, row_stream, LoopSpec, check, yields_match, cover)
    fk = vc.under_contract('dataflows/processors/filter_rows.py', ['process_resource'])
    spec = SpecModule(SPEC)

    def thunk(it):
        f = real_function(it, 'dataflows.processors.filter_rows', 'process_resource')
        cond = ufunc('condition')
        rows = row_stream(it, 'rows')
        sp = spec.bind(it)

        def at_start(it, env, elem):
            it.path.info['in_iter'] = True
            g = ghost_row(elem.snapshot(), elem)
            return g, run_spec(it, sp.attrs['filter_step'], [g, cond])

        def at_end(it, env, cap, events):
            g, exp = cap
            check(it, 'step', yields_match(it, events, exp.value, same_object=True))
            cover(it, 'iter-reachable')

        def at_exit(it, env):
            it.path.info['exit_mark'] = len(it.path.events)
        it.loops['process_resource#L0'] = LoopSpec(at_start=at_start, at_end=at_end, at_exit=at_exit)
        it.run_generator(it.call(f, [rows, cond]))
        # exhaustion path: nothing is yielded after the loop, the stream was drained (no break)
        n0 = it.path.info.get('exit_mark', 0)
        check(it, 'post-silent', len([e for e in it.path.events[n0:] if e.kind == 'Yield']) == 0)
        check(it, 'drains', rows.drained is True)
    paths = vc.explore(fk, thunk, min_paths=3)
    expect_no_raise_or_same(vc, fk, paths)


def nat_filter_process_resource(h):
    from dataflows.processors.filter_rows import process_resource
    sp = h.spec(SPEC)
    for _ in range(h.n()):
        rows = h.rows()
        table = {}

        def cond(row):
            key = repr(sorted(row.items(), key=repr))
            if key not in table:
                table[key] = h.value([True, False, 0, 1, '', 'x', None])
            return table[key]
        want = [r for row in rows for r in sp['filter_step'](row, cond)]
        got = list(process_resource(iter(rows), cond))
        h.check(got == want and all(a is b for a, b in zip(got, want)), 'filter_rows.process_resource', rows, want, got)


def replay_filter_process_resource(h, cex, obligation):
    """the solver's counterexample of a failed filter obligation: the rows of the stream and the graph of `condition`"""
    from contracts import replayers as R
    from dataflows.processors.filter_rows import process_resource
    rows = R.rows(cex, 'rows.row')
    cond, graph = R.func(cex, 'condition')
    sp = h.spec(SPEC)
    want = [r for row in rows for r in sp['filter_step'](row, cond)]
    got = h.run(lambda: list(process_resource(iter([dict(r) for r in rows]), cond)))
    h.check(got[0] == 'ok' and got[1] == want, 'dataflows/processors/filter_rows.py::process_resource', dict(rows=rows, condition=graph), want, got[:2])


def sym_old_style(vc):
    from pyvc.api import SpecModule, real_function, sym_row, check, PyList
    from pyvc.symex import PyExc
    from pyvc import lib
    fk = vc.under_contract('dataflows/processors/filter_rows.py', ['old_style_conditions', 'func'])
    spec = SpecModule(SPEC)
    shapes = [(0, 0), (1, 0), (0, 1), (1, 1), (2, 1), (1, 2)]
    for ne, nn in shapes:
        def thunk(it, ne=ne, nn=nn):
            mk = real_function(it, 'dataflows.processors.filter_rows', 'old_style_conditions')
            equals = tuple(sym_row(it, 'eq%d' % i) for i in range(ne))
            not_equals = tuple(sym_row(it, 'ne%d' % i) for i in range(nn))
            row = sym_row(it, 'row')
            sp = spec.bind(it)
            exp = run_spec(it, sp.attrs['old_style'], [row, equals, not_equals])
            func = it.call(mk, [equals, not_equals])
            try:
                got = it.call(func, [row])
            except PyExc as e:
                check(it, 'raises-as-spec[%d,%d]' % (ne, nn), exp.exc is not None and exp.exc.cls == e.exc.cls)
                return
            check(it, 'no-missed-raise[%d,%d]' % (ne, nn), exp.exc is None)
            if exp.exc is None:
                t1, t2 = it.truth(got), it.truth(exp.value)
                import z3
                t1 = z3.BoolVal(t1) if isinstance(t1, bool) else t1
                t2 = z3.BoolVal(t2) if isinstance(t2, bool) else t2
                check(it, 'value[%d,%d]' % (ne, nn), t1 == t2)
        vc.explore(fk, thunk)
    vc.assume_note('old_style_conditions: lists of condition dicts enumerated for shapes %r (dict contents, row: symbolic, '
                   'unbounded); the per-dict any() is decided for dicts of every size' % (shapes,))


def replay_old_style(h, cex, obligation):
    """the solver's counterexample of a failed old-style-conditions obligation: the row and the equals / not_equals dicts"""
    import re as _re
    from contracts import replayers as R
    from dataflows.processors.filter_rows import old_style_conditions
    m = _re.search(r'\[(\d+),(\d+)\]', obligation)
    if not m:
        return 'not-concretisable'
    ne, nn = int(m.group(1)), int(m.group(2))
    row = (R.rows(cex, 'row') or [{}])[0]
    equals = [(R.rows(cex, 'eq%d' % i) or [{}])[0] for i in range(ne)]
    not_equals = [(R.rows(cex, 'ne%d' % i) or [{}])[0] for i in range(nn)]
    sp = h.spec(SPEC)
    want = h.run(lambda: sp['old_style'](row, equals, not_equals))
    got = h.run(lambda: old_style_conditions(equals, not_equals)(row))
    ok = (want[0] == got[0] == 'ok' and bool(want[1]) == bool(got[1])) or (want[0] == got[0] == 'exc' and want[1] == got[1])
    h.check(ok, 'dataflows/processors/filter_rows.py::old_style_conditions.func', dict(row=row, equals=equals, not_equals=not_equals), want[:2], got[:2])


def nat_old_style(h):
    from dataflows.processors.filter_rows import old_style_conditions
    from dataflows import Flow, filter_rows
    sp = h.spec(SPEC)
    keys = ['a', 'b', 'c']
    small = [0, 1, 2, None, 'x']          # a small value domain: conditions and cells collide often
    for i in range(h.n(150, 1500)):
        vals = small if i % 2 == 0 else None
        row = h.row(keys, vals=vals, total=h.rng.random() < 0.7)
        equals = [h.row(keys, vals=vals) for _ in range(h.rng.randint(0, 3))]
        not_equals = [h.row(keys, vals=vals) for _ in range(h.rng.randint(0, 3))]
        want = h.run(lambda: sp['old_style'](row, equals, not_equals))
        got = h.run(lambda: old_style_conditions(equals, not_equals)(row))
        ok = (want[0] == got[0] == 'ok' and bool(want[1]) == bool(got[1])) or (want[0] == got[0] == 'exc' and want[1] == got[1])
        h.check(ok, 'dataflows/processors/filter_rows.py::old_style_conditions.func', (row, equals, not_equals), want[:2], got[:2])
    # several condition objects naming the SAME field (a value list written as one object per value), end to end
    rows = [{'a': v, 'i': i} for i, v in enumerate([0, 1, 2, 3, 1, 0])]
    for eq, ne in (([{'a': 1}, {'a': 2}], []), ([], [{'a': 1}, {'a': 2}]), ([], [{'a': 1}, {'a': 1}]), ([{'a': 0}], [{'a': 0}, {'a': 3}]),
                   ([], [{'a': 1}]), ([{'a': 1}, {'a': 1}], []), ([], []), ((), ())):
        want = [r['i'] for r in rows if any(r['a'] == o['a'] for o in eq) or any(r['a'] != o['a'] for o in ne)]
        got = h.run(lambda: [r['i'] for r in Flow([dict(r) for r in rows], filter_rows(equals=eq, not_equals=ne)).results(on_error=None)[0][0]])
        h.check(got[0] == 'ok' and got[1] == want, 'dataflows/processors/filter_rows.py::old_style_conditions.func', (eq, ne), want, got[:2])


def sym_filter_func(vc):
    from pyvc.api import ufunc
    cond = ufunc('condition')

    def maker_args(it, sel):
        return [], dict(condition=cond, resources=sel)

    def arg_ok(it, env, r, g):
        return len(g.args) == 2 and g.args[0] is r and g.args[1] is cond
    dispatch_symbolic(vc, 'dataflows/processors/filter_rows.py', ['filter_rows', 'func'],
                      'dataflows.processors.filter_rows', 'filter_rows', maker_args, gen_of({'process_resource'}, arg_ok))
    # no callable: the condition is the any-of over the two lists -- also when both are EMPTY (an any-of nothing satisfies: the selected
    # resources come out empty, they are not passed through unfiltered) and for every truthiness of what is handed over
    from pyvc.api import FuncDefV, sym_row

    def maker_args2(it, sel):
        return [], dict(equals=(), not_equals=(), resources=sel)

    def arg_ok2(it, env, r, g):
        c = g.args[1] if len(g.args) == 2 else None
        return len(g.args) == 2 and g.args[0] is r and isinstance(c, FuncDefV) and 'old_style_conditions' in c.qualname and c.name == 'func'
    dispatch_symbolic(vc, 'dataflows/processors/filter_rows.py', ['filter_rows', 'func'],
                      'dataflows.processors.filter_rows', 'filter_rows', maker_args2, gen_of({'process_resource'}, arg_ok2),
                      kinds=('none', 'list'))
    vc.under_contract('dataflows/helpers/resource_matcher.py', ['ResourceMatcher', '__init__'])
    vc.under_contract('dataflows/helpers/resource_matcher.py', ['ResourceMatcher', 'match'])


# ------------------------------------------------------------------------------------------------ deduplicate

def _dedup_rows(it, pk_kind):
    """ResourceWrapper whose descriptor carries the primary key: absent | [] | opaque list of names"""
    from pyvc.api import PyDict, PyList, str_seq
    from pyvc import lib
    if pk_kind == 'absent':
        desc = PyDict({'schema': PyDict({'fields': PyList([])})})
        pk = PyList([])
    elif pk_kind == 'empty':
        pk = PyList([])
        desc = PyDict({'schema': PyDict({'fields': PyList([]), 'primaryKey': pk})})
    elif pk_kind == 'string':
        # Table Schema: a single-field key may be given as a string; it means the one-field key [name]
        from pyvc.api import sym_str
        name = sym_str(it, 'pk_name')
        desc = PyDict({'schema': PyDict({'fields': PyList([]), 'primaryKey': name})})
        return mk_resource(it, 'rows', descriptor=desc), PyList([name])
    else:
        pk = str_seq(it, 'pk')
        desc = PyDict({'schema': PyDict({'fields': PyList([]), 'primaryKey': pk})})
    return mk_resource(it, 'rows', descriptor=desc), pk


def sym_deduper(vc):
    from pyvc.api import (SpecModule, real_function, LoopSpec, check, cover, yields_match, yields_of, SetV, CellSeq)
    import z3
    fk = vc.under_contract('dataflows/processors/deduplicate.py', ['deduper'])
    spec = SpecModule(SPEC)
    for pk_kind in ('absent', 'empty', 'list', 'string'):
        def thunk(it, pk_kind=pk_kind):
            f = real_function(it, 'dataflows.processors.deduplicate', 'deduper')
            rows, pk = _dedup_rows(it, pk_kind)
            sp = spec.bind(it)
            if pk_kind == 'list':
                # the empty-key branch is covered by the other two kinds
                it.assume(z3.Length(pk.term) > 0)

            def at_start(it, env, elem):
                it.path.info['in_iter'] = True
                keys = env.lookup('keys')
                lib_fix(it, keys)
                seen = SetV(keys.arr, CellSeq)
                g = ghost_row(elem.snapshot(), elem)
                exp = run_spec(it, sp.attrs['dedup_step'], [seen, g, pk])
                if exp.exc is not None:
                    it.path.info['expect_exc'] = exp.exc.cls
                return exp

            def at_end(it, env, exp, events):
                if exp.exc is not None:
                    return
                outs, seen2 = exp.value
                check(it, 'step-yields', yields_match(it, events, outs, same_object=True))
                check(it, 'step-state', env.lookup('keys').arr == seen2.arr)
                cover(it, 'iter-reachable')
            if pk_kind not in ('absent', 'empty'):
                # (without a key the rows are handed on as they come: no loop)
                it.loops['deduper#L0'] = LoopSpec(at_start=at_start, at_end=at_end,
                                                  at_exit=lambda it, env: it.path.info.__setitem__('exit_mark', len(it.path.events)))
            it.run_generator(it.call(f, [rows]))
            ys = yields_of(it.path.events)
            yf = [e for e in it.path.events if e.kind == 'YieldFrom']
            if pk_kind in ('absent', 'empty'):
                check(it, 'no-key-identity', len(ys) == 0 and len(yf) == 1 and yf[0].src is rows)
            else:
                check(it, 'post-silent', len(ys) == 0 and len(yf) == 0)
                check(it, 'drains', rows.stream.drained is True)
        paths = vc.explore(fk, thunk, min_paths=1 if pk_kind not in ('list', 'string') else 3)
        expect_no_raise_or_same(vc, fk, paths)
    # lemma over the spec: emitting a row puts its key in `seen`, so a second pass drops nothing and a row is emitted
    # iff its key was not seen before  (first-of-key + idempotence follow by induction on the stream)
    vc.cur_fn = fk
    S = z3.Const('seen', z3.ArraySort(CellSeq, z3.BoolSort()))
    k = z3.Const('k', CellSeq)
    seen2 = z3.Store(S, k, True)
    vc.add('deduper.lemma.emitted-key-is-seen', [], z3.And(seen2[k], z3.Implies(S[k], seen2 == S)))
    k2 = z3.Const('k2', CellSeq)
    vc.add('deduper.lemma.seen-monotone', [S[k2]], seen2[k2])


def lib_fix(it, keys):
    from pyvc import lib
    from pyvc.api import CellSeq
    if isinstance(keys, lib.EmptySet) and keys.elem_sort is None:
        keys._fix(CellSeq)


def nat_deduper(h):
    from dataflows.processors.deduplicate import deduper
    sp = h.spec(SPEC)

    class RW:
        def __init__(self, desc, rows):
            class R:
                pass
            self.res = R()
            self.res.descriptor = desc
            self.rows = rows

        def __iter__(self):
            return iter(self.rows)
    keys = ['a', 'b', 'c']
    import decimal, datetime
    # (value kinds that set_type / load put into rows: equal numbers written differently are ONE key, instants that differ below
    # the second are TWO; 1 / 1.0 / True and the other cross-type equalities of Python stay out of the pool)
    kinds = [decimal.Decimal('1.0'), decimal.Decimal('1.00'), decimal.Decimal('2.5'), datetime.datetime(2020, 1, 1, 0, 0, 0, 5),
             datetime.datetime(2020, 1, 1, 0, 0, 0, 7), datetime.date(2020, 1, 1), datetime.time(1, 2, 3, 4), datetime.time(1, 2, 3, 9), 'x', None]
    for t in range(h.n()):
        vals = [None, 0, 1, 'x', ''] if t % 3 else kinds
        pk = h.subset(keys, 0.5)
        if h.rng.random() < 0.2:
            pk = h.rng.choice(keys)          # Table Schema: a single-field key may be given as a string
        rows = h.rows(keys=keys, vals=vals, total=True, maxn=8)
        desc = {'schema': {'fields': [], 'primaryKey': pk}} if h.rng.random() < 0.8 else {'schema': {'fields': []}}
        pk_eff = desc['schema'].get('primaryKey', [])
        pk_eff = [pk_eff] if isinstance(pk_eff, str) else pk_eff
        seen = set()
        want = []
        for r in rows:
            if not pk_eff:
                want.append(r)
                continue
            out, seen = sp['dedup_step'](seen, r, pk_eff)
            want += out
        got = list(deduper(RW(desc, rows)))
        ok = got == want and all(a is b for a, b in zip(got, want))
        h.check(ok, 'deduplicate.deduper', (pk, rows), want, got)
        # idempotence
        again = list(deduper(RW(desc, list(got))))
        h.check(again == got, 'deduplicate.deduper', ('twice', pk, rows), got, again)


def sym_dedup_func(vc):
    def maker_args(it, sel):
        return [], dict(resources=sel)

    dispatch_symbolic(vc, 'dataflows/processors/deduplicate.py', ['deduplicate', 'func'],
                      'dataflows.processors.deduplicate', 'deduplicate', maker_args, gen_of({'deduper'}),
                      kinds=('none', 'list', 'str'))


# ------------------------------------------------------------------------------------------------ unpivot

def sym_unpivot_rows(vc):
    from pyvc.api import (SpecModule, real_function, LoopSpec, check, cover, yields_match, yields_of, row_stream, str_seq,
                          sym_str, sym_row, PyDict, PyList, SymSeq, same_row, IntS)
    import z3
    fk = vc.under_contract('dataflows/processors/unpivot.py', ['unpivot_rows'])
    spec = SpecModule(SPEC)

    def thunk(it):
        f = real_function(it, 'dataflows.processors.unpivot', 'unpivot_rows')
        rows = row_stream(it, 'rows')
        keep = str_seq(it, 'keep')
        vname = sym_str(it, 'value_name')
        extra_value = PyDict({'name': vname, 'type': 'any'})
        n = [0]

        def mk_u(it_):
            n[0] += 1
            u = PyDict({'name': sym_str(it_, 'u.name'), 'keys': sym_row(it_, 'u.keys')})
            return u, None
        U = SymSeq('fields_to_unpivot', it.fresh('U', IntS), mk_u)
        sp = spec.bind(it)
        st = {}

        def rows_start(it, env, row):
            it.path.info['in_iter'] = True
            st['row'] = ghost_row(row.snapshot(), row)
            return None

        def rows_end(it, env, cap, events):
            # reached when the inner loop is exhausted: the inner loop's iterations account for all yields
            ys = yields_of(events)
            check(it, 'no-yield-outside-inner-loop', len(ys) == 0)
            cover(it, 'row-iter-reachable')

        def u_start(it, env, u):
            exp = run_spec(it, sp.attrs['unpivot_one'], [st['row'], u, keep, vname])
            if exp.exc is not None:
                it.path.info['expect_exc'] = exp.exc.cls
            return exp

        def u_end(it, env, exp, events):
            if exp.exc is not None:
                return
            ys = yields_of(events)
            if len(ys) != 1:
                check(it, 'one-row-per-unpivoted-field', False)
                return
            check(it, 'one-row-per-unpivoted-field', True)
            check(it, 'row-content', same_row(ys[0].value, exp.value))
            # fresh dict: not the input row, not the shared `keys` config
            check(it, 'fresh-object', ys[0].obj is not env.lookup('row') and
                  ys[0].obj is not env.lookup('unpivot_field').d['keys'])
            check(it, 'config-not-mutated', not [e for e in events if e.kind in ('RowWrite', 'RowUpdate', 'RowMapLoop')
                                                 and e.obj is env.lookup('unpivot_field').d['keys']])
            cover(it, 'field-iter-reachable')
        it.loops['unpivot_rows#L0'] = LoopSpec(at_start=rows_start, at_end=rows_end,
                                               at_exit=lambda it, env: it.path.info.__setitem__('exit_mark', len(it.path.events)))
        it.loops['unpivot_rows#L1'] = LoopSpec(at_start=u_start, at_end=u_end)
        it.run_generator(it.call(f, [rows, U, keep, extra_value]))
        check(it, 'post-silent', len(yields_of(it.path.events)) == 0)
        check(it, 'drains', rows.drained is True)
    paths = vc.explore(fk, thunk, min_paths=4)
    expect_no_raise_or_same(vc, fk, paths)


def nat_unpivot_rows(h):
    from dataflows.processors.unpivot import unpivot_rows
    sp = h.spec(SPEC)
    keys = ['a', 'b', 'c', 'd']
    for _ in range(h.n()):
        keep = h.subset(keys[:2], 0.7)
        ups = [{'name': nm, 'keys': {'k': h.value(['x', 'y', 1]), 'j': h.value([None, 'z'])}} for nm in h.subset(keys[1:], 0.6)]
        rows = h.rows(keys=keys, total=h.rng.random() < 0.7)
        ev = {'name': h.rng.choice(['value', 'a', 'k'])}
        want = h.run(lambda: [sp['unpivot_one'](r, u, keep, ev['name']) for r in rows for u in ups])
        got = h.run(lambda: list(unpivot_rows(iter(rows), ups, keep, ev)))
        ok = want[0] == got[0] and (want[1] == got[1])
        if ok and got[0] == 'ok':
            ok = len(got[1]) == len(rows) * len(ups)
        h.check(ok, 'unpivot.unpivot_rows', (rows, ups, keep, ev), want[:2], got[:2])


UNPIVOT_SPEC = '''
def unpivot_plan(fields, unpivot_fields, regex, match, expand):
    remaining = list(fields)
    selected = []
    for u in unpivot_fields:
        taken = [f for f in remaining if match(u['name'], f['name'])]
        remaining = [f for f in remaining if not match(u['name'], f['name'])]
        for f in taken:
            keys = {}
            for k in u['keys']:
                v = u['keys'][k]
                if regex and isinstance(v, str):
                    v = expand(u['name'], v, f['name'])        # the template expanded on the full match of the field name
                keys[k] = v
            selected.append((f, keys))
    return selected, remaining
'''


def sym_unpivot_pkg(vc):
    """unpivot.func package phase -- BOUNDED (structure unrolled: <= 3 schema fields x <= 2 unpivot specs, contents symbolic):
    fields are partitioned spec by spec (a field is taken by the first spec matching it, never twice); the row phase gets the
    unpivoted fields in selection order with their derived key values and the names of the kept fields; the schema becomes
    kept ++ extra_keys ++ [extra_value]."""
    import z3
    from pyvc.api import (real_function, LoopSpec, check, cover, SpecModule, sym_str, PyList, PyDict, UFunc, wrap, term, StrS,
                          Tree)
    from pyvc import lib
    from contracts.common import mk_package2, field_tree, tree_writes_under
    fk = vc.under_contract('dataflows/processors/unpivot.py', ['unpivot', 'func'])
    vc.under_contract('dataflows/processors/unpivot.py', ['match_fields'])
    spec = SpecModule(UNPIVOT_SPEC)
    vc.bounded_label = 'unpivot package phase'
    vc.bounded_notes.append('unpivot.func package phase: schema field list unrolled for 0..3 fields with pairwise distinct symbolic '
                            'names, 1..2 unpivot specs each with one symbolic key value, regex on/off')
    try:
        for nf in (0, 1, 2, 3):
            for nu in (1, 2):
                for regex in (True, False):
                    def thunk(it, nf=nf, nu=nu, regex=regex):
                        maker = real_function(it, 'dataflows.processors.unpivot', 'unpivot')
                        ufs = PyList([PyDict({'name': sym_str(it, 'uname%d' % j), 'keys': PyDict({'k': sym_str(it, 'kval%d' % j)})})
                                      for j in range(nu)])
                        extra_keys = PyList([PyDict({'name': 'k', 'type': 'string'})])
                        extra_value = PyDict({'name': sym_str(it, 'vname'), 'type': 'any'})
                        func = it.call(maker, [ufs, extra_keys, extra_value], dict(regex=regex, resources=None))
                        package = mk_package2(it)
                        flds = [field_tree(it, 'fld%d' % j) for j in range(nf)]
                        for a in range(nf):
                            for b in range(a + 1, nf):
                                it.assume(flds[a].children['name'].t != flds[b].children['name'].t)

                        def match(it_, a, k):
                            if regex:
                                return wrap(lib.RE_FULLMATCH(term(a[0], StrS), term(a[1], StrS)))
                            r = lib.values_equal(it_, a[0], a[1])
                            return r if isinstance(r, bool) else wrap(r)

                        def sub(it_, a, k):
                            return wrap(lib.RE_EXPAND(term(a[0], StrS), term(a[1], StrS), term(a[2], StrS)))
                        sp = spec.bind(it)

                        def res_start(it, env, rd):
                            lst = PyList(list(flds))
                            sch = lib.tree_child(it, rd, 'schema')
                            lst.parent = sch
                            sch.children['fields'] = lst
                            return rd

                        def res_end(it, env, rd, events):
                            sel, remaining = it.call(sp.attrs['unpivot_plan'], [PyList(list(flds)), ufs, regex,
                                                                                UFunc('match', match), UFunc('sub', sub)])
                            conf = env.lookup('all_res_config')
                            ent = [v for k, v in conf.d.items() if k is rd.children['name']]
                            tag = '[%d,%d,%s]' % (nf, nu, regex)
                            if len(ent) != 1:
                                check(it, 'config-registered' + tag, False)
                                return
                            c = ent[0]
                            got = c.d['unpivot_fields_without_regex']      # internal name: KeyError = contract-mapping error = undecided
                            ok = got is not None and len(got.items) == len(sel.items) and \
                                all(g is w[0] for g, w in zip(got.items, sel.items))
                            check(it, 'unpivoted-fields-in-selection-order-each-once' + tag, ok)
                            if ok:
                                for g, w in zip(got.items, sel.items):
                                    kv = g.children.get('keys')
                                    wk = w[1]
                                    same = isinstance(kv, PyDict) and set(kv.d) == set(wk.d) and True
                                    check(it, 'derived-key-values' + tag, z3.And(*[term(kv.d[k], StrS) == term(wk.d[k], StrS)
                                                                                  for k in wk.d]) if same else False)
                            keep = c.d['fields_to_keep']
                            okk = keep is not None and len(keep.items) == len(remaining.items)
                            check(it, 'kept-names-are-the-unclaimed-fields' + tag,
                                  z3.And(*[term(a, StrS) == b.children['name'].t for a, b in zip(keep.items, remaining.items)])
                                  if okk and keep.items else okk)
                            ws = [e for e in tree_writes_under(events, rd) if e.kind == 'TreeWrite' and e.key == 'fields']
                            oks = len(ws) == 1 and isinstance(ws[0].value, PyList) and \
                                len(ws[0].value.items) == len(remaining.items) + 2 and \
                                all(a is b for a, b in zip(ws[0].value.items, remaining.items))
                            check(it, 'schema-is-kept-then-keys-then-value' + tag, oks)
                            if oks:
                                # the appended descriptors EQUAL the caller's extra_keys / extra_value and are this resource's OWN
                                # objects (shared ones would let an in-place edit of one resource's field reach the others)
                                lastv, lastk = ws[0].value.items[-1], ws[0].value.items[-2]
                                same = lambda a, b: isinstance(a, PyDict) and isinstance(b, PyDict) and set(a.d) == set(b.d) and \
                                    all(a.d[k] is b.d[k] or a.d[k] == b.d[k] for k in a.d)
                                check(it, 'extra-fields-equal-the-specification' + tag, same(lastv, extra_value) and same(lastk, extra_keys.items[0]))
                                check(it, 'extra-fields-are-not-shared-between-resources' + tag,
                                      lastv is not extra_value and lastk is not extra_keys.items[0])
                            cover(it, 'reachable' + tag)
                        it.loops['func#L0'] = LoopSpec(at_start=res_start, at_end=res_end, keep=('all_res_config',))
                        it.loops['func#L4'] = LoopSpec(modes=('exit',))
                        it.run_generator(it.call(func, [package]))
                    paths = vc.explore(fk, thunk, min_paths=2)
                    expect_no_raise_or_same(vc, fk, paths)
    finally:
        vc.bounded_label = None


def nat_unpivot_flow(h):
    """bounded end-to-end: unpivot on real packages (overlapping specs included) against an independent reference"""
    import re
    from dataflows import Flow, unpivot, set_type, rename_fields
    # two resources unpivoted by one step, then a step restricted to ONE of them edits the new field in place
    for second in (lambda: set_type('value', resources='res_1', type='string', transform=str), lambda: rename_fields({'value': 'v2'}, resources='res_1')):
        got = h.run(lambda: Flow([{'id': 1, 'x': 5}], [{'id': 2, 'x': 7}],
                                 unpivot([dict(name='x', keys=dict(k='x'))], [dict(name='k', type='string')], dict(name='value', type='integer')),
                                 second()).results(on_error=None))
        if got[0] == 'ok':
            res, dp, _ = got[1]
            rd = dp.descriptor['resources'][1]
            fl = [(f['name'], f['type']) for f in rd['schema']['fields']]
            h.check(fl == [('id', 'integer'), ('k', 'string'), ('value', 'integer')] and res[1] == [{'id': 2, 'k': 'x', 'value': 7}],
                    'dataflows/processors/unpivot.py::unpivot.func', 'second resource after a step on res_1 only',
                    "[('id','integer'),('k','string'),('value','integer')]", (fl, res[1]))
    # literal mode (regex=False): names are compared as they are (metacharacters included) and key values are constants
    lit_rows = [{'id': 1, 'a.b': 'p', '[x]': 'q', 'a+b': 'r', 'axb': 's'}]
    for name, const in (('a.b', r'C:\new\table'), ('[x]', r'col\1'), ('a+b', r'\g<0>'), ('a.b', 'plain'), ('axb', r'tab\t')):
        got = h.run(lambda: Flow([dict(r) for r in lit_rows],
                                 unpivot([dict(name=name, keys=dict(key=const))], [dict(name='key', type='string')],
                                         dict(name='value', type='string'), regex=False)).results()[0][0])
        want = [dict({k: v for k, v in lit_rows[0].items() if k != name}, key=const, value=lit_rows[0][name])]
        h.check(got[0] == 'ok' and got[1] == want, 'dataflows/processors/unpivot.py::unpivot.func', ('literal mode', name, const), want, got[:2])
    cols_pool = ['2000', '2001', 'q1_sales', 'q2_sales', 'name', 'id']
    for _ in range(h.n(30, 300)):
        cols = h.rng.sample(cols_pool, h.rng.randint(2, 5))
        rows = [{c: '%s-%d' % (c, i) for c in cols} for i in range(h.rng.randint(0, 3))]
        specs = []
        for _s in range(h.rng.randint(1, 2)):
            kind = h.rng.choice(['lit', 're', 'all', 'nullable'])
            if kind == 'lit':
                specs.append(dict(name=re.escape(h.rng.choice(cols)), keys=dict(key='const')))
            elif kind == 're':
                specs.append(dict(name=r'([0-9]{4})', keys=dict(key=r'\1')))
            elif kind == 'all':
                specs.append(dict(name=r'(q\d)_sales', keys=dict(key=r'\1')))
            elif kind == 'nullable':
                # patterns that also match the empty string or match lazily: the key must still come from the FULL match
                specs.append(h.rng.choice([dict(name=r'[0-9]*', keys=dict(key='year')), dict(name=r'(\d*)', keys=dict(key=r'y\1')),
                                           dict(name=r'(\d+?)', keys=dict(key=r'y\1')), dict(name=r'q1|q1_sales', keys=dict(key='K'))]))
        remaining = list(cols)
        sel = []
        for u in specs:
            taken = [c for c in remaining if re.fullmatch(u['name'], c)]
            remaining = [c for c in remaining if not re.fullmatch(u['name'], c)]
            for c in taken:
                sel.append((c, {k: re.fullmatch(u['name'], c).expand(v) for k, v in u['keys'].items()}))
        want = []
        for r in rows:
            for c, keys in sel:
                o = dict(keys)
                for k in remaining:
                    o[k] = r[k]
                o['value'] = r.get(c)
                want.append(o)
        got = h.run(lambda: Flow([dict(r) for r in rows],
                                 unpivot([dict(u, keys=dict(u['keys'])) for u in specs], [dict(name='key', type='string')],
                                         dict(name='value', type='string'))).results()[0][0] if rows else [])
        if not rows:
            continue
        h.check(got[0] == 'ok' and got[1] == want, 'dataflows/processors/unpivot.py::unpivot.func', (cols, rows, specs), want, got[:2])


from contracts import C10 as _K10   # noqa: E402  (ResourceMatcher: the contract every selector-taking step is checked against)

ITEMS = [
    _K10._mk_matcher_item(),
    Item('filter_rows.process_resource', sym_filter_process_resource, [('differential', nat_filter_process_resource)], fnkey='dataflows/processors/filter_rows.py::process_resource', replay=replay_filter_process_resource),
    Item('filter_rows.old_style_conditions', sym_old_style, [('differential', nat_old_style)],
         'dataflows/processors/filter_rows.py::old_style_conditions.func', replay=replay_old_style),
    Item('filter_rows.func', sym_filter_func, [], 'dataflows/processors/filter_rows.py::filter_rows.func'),
    Item('deduplicate.deduper', sym_deduper, [('differential', nat_deduper)], 'dataflows/processors/deduplicate.py::deduper'),
    Item('deduplicate.func', sym_dedup_func, [], 'dataflows/processors/deduplicate.py::deduplicate.func'),
    Item('unpivot.unpivot_rows', sym_unpivot_rows, [('differential', nat_unpivot_rows)],
         'dataflows/processors/unpivot.py::unpivot_rows'),
    Item('unpivot.package-phase', sym_unpivot_pkg, [('end-to-end', nat_unpivot_flow)], 'dataflows/processors/unpivot.py::unpivot.func'),
    Item('recorded-findings', None, [('bounded', KF.nat_findings_c17)], 'dataflows/processors/deduplicate.py::deduper'),
]

from contracts import reuse as _REUSE   # noqa: E402
ITEMS.append(Item('second-use', None, [('catalogue', _REUSE.nat_second_use_for('C17'))], 'dataflows/processors/unpivot.py::unpivot.func'))
