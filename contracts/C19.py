"""C19  A dump descriptor is written only after its data files are complete.

Effect trace of dump_to_path, proved function by function (callers against callee contracts):
  process_resources : per resource yields the counted, processed, validated stream; handle_datapackage (the only writer of
                      datapackage.json) is called only after the loop over ALL resource streams ended by exhaustion --
                      never on a path abandoned at a yield or where an upstream pull raised
  rows_processor    : write_row before each yield; on exhaustion finalize_file . tell . hash . close . copy-out . unlink,
                      recorded size / hash are those of the temp file that is copied; nothing is copied out on an
                      incomplete path
  handle_datapackage: descriptor -> temp file -> close -> copy as 'datapackage.json' -> unlink
  write_file_to_output: one shutil.copy to out_path/<path>, parent directory created first
With the consumer draining stream i before asking for stream i+1 (P-seq, discharged for the driver in C05) every data-file
copy precedes the descriptor copy.
"""
from contracts import findings_natives as KF
from contracts.common import Item
from contracts import dumpers as DM, natives as N

TRUSTED = ['T1 pyvc model of Python (DESIGN 3)', 'T11 shutil.copy creates the destination only when called; a strict prefix of '
           'a JSON document does not parse', 'T16 z3 / cvc5']
ASSUMPTIONS = ['a kill inside shutil.copy of datapackage.json leaves a prefix of a JSON document, which is unparseable',
               'consumers drain resource streams in order (rely P-seq, discharged for the driver under C05)']
from contracts.common import lazy_sym, lazy_nat   # noqa: E402

ITEMS = [
    Item('DumperBase.process_resources', DM.sym_process_resources, [('crashpoints', N.nat_dump_crashpoints), ('failing-runs', N.nat_dump_failures)],
         DM.D + 'dumper_base.py::DumperBase.process_resources'),
    Item('FileDumper.rows_processor', DM.sym_rows_processor, [], DM.D + 'file_dumper.py::FileDumper.rows_processor'),
    Item('FileDumper.dispatch', DM.sym_file_dumper_dispatch, [], DM.D + 'file_dumper.py::FileDumper.process_datapackage'),
    Item('FileDumper.handle_datapackage', DM.sym_handle_datapackage, [], DM.D + 'file_dumper.py::FileDumper.handle_datapackage'),
    Item('PathDumper.write_file_to_output', DM.sym_write_file_to_output, [], DM.D + 'to_path.py::PathDumper.write_file_to_output'),
    Item('PathDumper.write_file_to_output.faulty', DM.sym_write_file_to_output_faulty, [], DM.D + 'to_path.py::PathDumper.write_file_to_output'),
    Item('recorded-findings', None, [('bounded', KF.nat_findings_c19)], 'dataflows/processors/dumpers/dumper_base.py::DumperBase.process_resources'),
    # a step that removes a resource behind an observer reads its rows to the end: the observer upstream (a checkpoint being written, a
    # dump) only completes that resource -- and a sequential reader only reaches the next one -- when its consumer exhausts it
    Item('delete_resource.drains', lazy_sym('C10', 'sym_delete_resource'), [], 'dataflows/processors/delete_resource.py::delete_resource.func'),
]
