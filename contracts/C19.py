"""C19 (work in progress)"""
from contracts.common import Item
from contracts import dumpers as DM
TRUSTED = ['T1 pyvc model of Python (DESIGN 3)', 'T16 z3 / cvc5']
ASSUMPTIONS = []
ITEMS = [
    Item('DumperBase.process_resources', DM.sym_process_resources, [], DM.D + 'dumper_base.py::DumperBase.process_resources'),
    Item('DumperBase.row_counter', DM.sym_row_counter, [], DM.D + 'dumper_base.py::DumperBase.row_counter'),
    Item('FileDumper.rows_processor', DM.sym_rows_processor, [], DM.D + 'file_dumper.py::FileDumper.rows_processor'),
    Item('FileDumper.handle_datapackage', DM.sym_handle_datapackage, [], DM.D + 'file_dumper.py::FileDumper.handle_datapackage'),
    Item('PathDumper.write_file_to_output', DM.sym_write_file_to_output, [], DM.D + 'to_path.py::PathDumper.write_file_to_output'),
    Item('DumperBase.attr-helpers', DM.sym_attr_helpers, [('differential', DM.nat_attr_helpers)], DM.D + 'dumper_base.py::DumperBase.set_attr'),
]
