"""C05  Observers are transparent and capture the complete stream at their position.  (work in progress: dumpers below)"""
from contracts.common import Item
from contracts import streams as S

TRUSTED = ['T1 pyvc model of Python (DESIGN 3)', 'T16 z3 / cvc5']
ASSUMPTIONS = []

ITEMS = [
    Item('printer.func', S.sym_printer, [], 'dataflows/processors/printer.py::printer.func'),
    Item('finalizer', S.sym_finalizer, [], 'dataflows/processors/finalizer.py::finalizer.get_iterator.func'),
    Item('DataStreamProcessor.defaults', S.sym_dsp_base, [], 'dataflows/base/datastream_processor.py::DataStreamProcessor.process_resource'),
    Item('stream.res_writer', S.sym_res_writer, [], 'dataflows/processors/stream.py::stream.res_writer'),
    Item('stream.func', S.sym_stream_func, [], 'dataflows/processors/stream.py::stream.func'),
    Item('checkpoint.notify', S.sym_notify, [], 'dataflows/processors/checkpoint.py::_notify_checkpoint_saved.step'),
]
