"""C05  Observers are transparent and capture the complete stream at their position.

Each observer's row path is proved to re-yield the very same row object, untouched, one row at a time, and to persist /
count / print the row as it ENTERED (before the yield: a later step that edits the row in place cannot leak into what was
persisted); completion actions (close + rename, copy out + descriptor, callback, table) happen only after exhaustion.
Steps that discard resources drain them (delete_resource, join source index, driver), so an upstream observer sees the full
stream even when later steps delete / merge / filter.
"""
from contracts import findings_natives as KF
from contracts.common import Item
from contracts import streams as S, dumpers as DM, base as BA, natives as N
from contracts import C10 as K10

TRUSTED = ['T1 pyvc model of Python (DESIGN 3)', 'T5 cast of a native value of the declared type returns it unchanged (dumpers, '
           'validate)', 'T16 z3 / cvc5']
ASSUMPTIONS = ['consumers drain resource streams in order (rely P-seq); discharged for the driver safe_process here',
               'header_print / table_print / callback user callables do not touch the rows']

from contracts import C10 as _K10   # noqa: E402  (ResourceMatcher: the contract every selector-taking step is checked against)

from contracts.common import lazy_sym, lazy_nat   # noqa: E402

ITEMS = [
    _K10._mk_matcher_item(),
    Item('printer.func', S.sym_printer, [('report', N.nat_printer_report)], 'dataflows/processors/printer.py::printer.func'),
    [i for i in K10.ITEMS if i.name == 'printer.step'][0],
    Item('finalizer', S.sym_finalizer, [], 'dataflows/processors/finalizer.py::finalizer.get_iterator.func'),
    Item('DataStreamProcessor.defaults', S.sym_dsp_base, [], 'dataflows/base/datastream_processor.py::DataStreamProcessor.process_resource'),
    Item('stream.res_writer', S.sym_res_writer, [], 'dataflows/processors/stream.py::stream.res_writer'),
    Item('stream.func', S.sym_stream_func, [], 'dataflows/processors/stream.py::stream.func'),
    Item('checkpoint.notify', S.sym_notify, [], 'dataflows/processors/checkpoint.py::_notify_checkpoint_saved.step'),
    Item('DumperBase.process_resources', DM.sym_process_resources, [], DM.D + 'dumper_base.py::DumperBase.process_resources'),
    Item('DumperBase.row_counter', DM.sym_row_counter, [], DM.D + 'dumper_base.py::DumperBase.row_counter'),
    Item('FileDumper.rows_processor', DM.sym_rows_processor, [], DM.D + 'file_dumper.py::FileDumper.rows_processor'),
    Item('FileDumper.dispatch', DM.sym_file_dumper_dispatch, [], DM.D + 'file_dumper.py::FileDumper.process_datapackage'),
    Item('driver.safe_process', BA.sym_safe_process, [], 'dataflows/base/datastream_processor.py::DataStreamProcessor.safe_process'),
    Item('delete_resource.drains', K10.sym_delete_resource, [], 'dataflows/processors/delete_resource.py::delete_resource.func'),
    Item('validate', K10.sym_validate, [], 'dataflows/processors/validate.py::validate.process_resource'),
    Item('pipelines', None, [('observer-transparency', N.nat_observers), ('observers-behind-a-pair', N.nat_observers_behind_a_pair)], None),
    Item('recorded-findings', None, [('bounded', KF.nat_findings_c05)], 'dataflows/processors/dumpers/dumper_base.py::DumperBase.process_resources'),
    # what stream / checkpoint persist is the extended-JSON text of the row: its encoder is part of "captures the stream at its position"
    Item('ejson.round-trip', lazy_sym('C07', 'sym_ejson_roundtrip'), [('differential', lazy_nat('C07', 'nat_ejson'))],
         'dataflows/helpers/extended_json.py::CommonJSONEncoder.default'),
    # what a file dumper persists is the serialised row: the serializer tables and their use are part of "captures the stream"
    Item('type-tables', lazy_sym('C03', 'sym_type_tables'), [], 'dataflows/processors/dumpers/formats/format_csv.py::CSVFormat'),
    Item('FileFormat', lazy_sym('C03', 'sym_file_format'), [('round-trip', lazy_nat('C03', 'nat_roundtrip'))],
         'dataflows/processors/dumpers/formats/base.py::FileFormat.write_row'),
]
