"""harness/native.py -- runs under the repository's interpreter (/venv/bin/python) against the REAL dataflows code.

Three uses, all labelled *bounded* in the evidence and never counted as proved:
  * engine-vs-CPython differential: the spec functions of the contracts (the same source text the prover executes
    symbolically) are executed natively and compared with the real functions on random inputs;
  * bounded stand-in for functions the prover leaves undecided;
  * replay: re-run a recorded failing case (test name + seed) on the current tree.
Prints one JSON line with the result.
"""
import argparse
import importlib
import io
import json
import os
import random
import sys
import time
import traceback
import contextlib

VERIF = os.path.dirname(os.path.dirname(os.path.abspath(__file__)))
sys.path.insert(0, VERIF)


class H:
    def __init__(self, tier, seed, only=None, replay_test=None, shard=(0, 1)):
        self.shard = shard                   # (index, count): a test that declares `shards` has its random cases split
        self.first_shard = shard[0] == 0     # deterministic sections of a sharded test run in the first shard only
        self.tier = tier
        self.seed = seed
        self.rng = random.Random(seed)
        self.cases = 0
        self.distinct = set()
        self.failures = []
        self.tests = {}
        self.only = only
        self.replay_test = replay_test
        self.cur = None
        self.bounds = []

    def n(self, quick=60, thorough=600):
        n = quick if self.tier == 'quick' else thorough
        return -(-n // self.shard[1])

    def spec(self, src, **free):
        ns = dict(free)
        exec(compile(src, '<spec>', 'exec'), ns)
        return ns

    def check(self, ok, fn=None, input=None, expected=None, observed=None, note=None):
        self.cases += 1
        t = self.cur
        self.tests[t] = self.tests.get(t, 0) + 1
        try:
            self.distinct.add(hash(repr(input)))
        except Exception:
            pass
        if not ok:
            if len([f for f in self.failures if f['test'] == t]) < 3:
                self.failures.append(dict(test=t, fn=fn, seed=self.seed, shard='%d/%d' % self.shard, input=_short(input), expected=_short(expected),
                                          observed=_short(observed), note=note))
        return ok

    # ---- generators
    KEYS = ['a', 'b', 'c', 'a b', 'A', 'x.y', 'id']
    VALS = [None, True, False, 0, 1, -1, 2, 10, '', 'a', 'b', ' a ', 'A', '1', 1.5, -2.5, 'é', 'x\ny']

    def value(self, vals=None):
        return self.rng.choice(vals or self.VALS)

    def row(self, keys=None, vals=None, total=False):
        keys = keys or self.KEYS[:4]
        if total:
            ks = list(keys)
        else:
            ks = [k for k in keys if self.rng.random() < 0.75]
        return {k: self.value(vals) for k in ks}

    def rows(self, n=None, keys=None, vals=None, total=False, maxn=6):
        if n is None:
            n = self.rng.randint(0, maxn)
        return [self.row(keys, vals, total) for _ in range(n)]

    def run(self, thunk):
        """('ok', value) or ('exc', exception class name, exception) of calling thunk() on the real code"""
        try:
            return ('ok', thunk())
        except Exception as e:  # noqa
            return ('exc', type(e).__name__, e)

    def subset(self, xs, p=0.5):
        return [x for x in xs if self.rng.random() < p]


def _short(x, lim=1500):
    try:
        s = repr(x)
    except Exception:
        s = '<unrepr>'
    return s if len(s) <= lim else s[:lim] + '...'


def main():
    ap = argparse.ArgumentParser()
    ap.add_argument('prop')
    ap.add_argument('--tier', default='quick')
    ap.add_argument('--seed', type=int, default=0)
    ap.add_argument('--only')
    ap.add_argument('--replay')
    ap.add_argument('--shard', default='0/1')
    ap.add_argument('--cex', help='replay file of a failed obligation: run the replayer of --item on its concretised counter-model')
    ap.add_argument('--item')
    ap.add_argument('--test', help='run exactly this native test (item.name); the driver runs the tests of a property side by side')
    a = ap.parse_args()
    replay_test = None
    seed = a.seed
    if a.replay:
        rec = json.load(open(a.replay))
        fi = rec.get('failing_input') or {}
        replay_test = fi.get('test')
        seed = fi.get('seed', seed)
        a.shard = fi.get('shard') or a.shard
    shard = tuple(int(x) for x in a.shard.split('/'))
    h = H(a.tier, seed, a.only, replay_test, shard)
    out = dict(cases=0, failures=[], tests=[], crashed=None)
    real_stdout = sys.stdout
    try:
        mod = importlib.import_module('contracts.' + a.prop)
        if a.cex:
            rec = json.load(open(a.cex))
            item = next(i for i in mod.ITEMS if i.name == a.item)
            h.cur = 'cex:%s' % rec.get('obligation')
            buf = io.StringIO()
            try:
                with contextlib.redirect_stdout(buf):
                    r = item.replay(h, rec.get('counterexample') or {}, rec.get('obligation') or '')
                if r == 'not-concretisable':
                    out.setdefault('skipped', []).append(dict(test=h.cur, reason='counter-model not concretisable for this obligation'))
            except (KeyError, IndexError, TypeError, ValueError, AttributeError, ImportError) as e:
                # the counter-model does not have the shape the replayer expects (e.g. abstract objects): not a failing input
                out.setdefault('skipped', []).append(dict(test=h.cur, reason='replayer could not build the input: %s: %s' % (type(e).__name__, e)))
            mod = type('M', (), {'ITEMS': []})
        items = list(mod.ITEMS)
        if not a.cex:
            from contracts import probes as _probes
            pit = _probes.probe_item(mod)
            if pit is not None:
                items.append(pit)
        for item in items:
            nat = getattr(item, 'native', None)
            if nat is None:
                continue
            if a.only and a.only not in item.name:
                continue
            for name, fn in nat:
                full = '%s.%s' % (item.name, name)
                if replay_test and replay_test != full:
                    continue
                if a.test and a.test != full:
                    continue
                h.cur = full
                if shard[1] > 1 and getattr(fn, 'shards', 1) != shard[1]:
                    continue          # a shard request is for the tests that declare exactly that many shards
                h.rng = random.Random('%s/%s' % (seed, full) if shard[1] == 1 else '%s/%s/%d' % (seed, full, shard[0]))
                buf = io.StringIO()
                try:
                    with contextlib.redirect_stdout(buf):
                        fn(h)
                except (KeyError, IndexError, AssertionError) as e:
                    # the oracle could not even take the output of the real code apart (a key / position it must contain is
                    # missing): the output does not have the shape the property prescribes -> a failed case, with the
                    # traceback as the observation.  (On the unchanged tree this would show up as a violation at once.)
                    h.check(False, None, 'oracle evaluation', 'an output the oracle can read',
                            '%s: %s | %s' % (type(e).__name__, e, traceback.format_exc().strip().splitlines()[-3].strip()[:200]))
                except ImportError as e:
                    # the test names a function / class of the library that the current source no longer has under that
                    # name (rename, move): the bounded test cannot be mapped onto the code -> skipped, reported as undecided
                    out.setdefault('skipped', []).append(dict(test=full, reason='HARNESS-MAPPING %s' % e))
                except AttributeError as e:
                    if str(e).startswith("module 'dataflows") or str(e).startswith("type object '"):
                        # `module.function` / `Class.method` named by the test is gone (rename, inlined, moved): as ImportError
                        out.setdefault('skipped', []).append(dict(test=full, reason='HARNESS-MAPPING %s' % e))
                    else:
                        out['crashed'] = 'exception in native test %s:\n%s' % (full, traceback.format_exc()[-2500:])
                except Exception:
                    out['crashed'] = 'exception in native test %s:\n%s' % (full, traceback.format_exc()[-2500:])
    except Exception:
        out['crashed'] = traceback.format_exc()[-3000:]
    out.setdefault('skipped', [])
    out.update(cases=h.cases, distinct=len(h.distinct), failures=h.failures,
               tests=[dict(test=k, cases=v) for k, v in sorted(h.tests.items())],
               bound='random inputs, seed=%s, tier=%s; sizes stated per test in the contract file' % (seed, a.tier))
    sys.stdout = real_stdout
    print(json.dumps(out, default=str))


if __name__ == '__main__':
    main()
