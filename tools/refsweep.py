#!/usr/bin/env python3
"""False-alarm sweep: apply a behaviour-preserving patch to a scratch copy of /repo (never /repo itself) and run every
property check whose contracts read one of the changed files (full check for the property the patch was written for,
prover only for the others).  Any VIOLATION line is a false alarm to be fixed in the machinery.
usage: refsweep.py <patch.diff> [own-property]"""
import json, os, re, shutil, subprocess, sys, tempfile, glob
V = os.path.dirname(os.path.dirname(os.path.abspath(__file__)))
patch = os.path.abspath(sys.argv[1])
own = sys.argv[2] if len(sys.argv) > 2 else None
changed = re.findall(r'^\+\+\+ b/(\S+)', open(patch).read(), re.M)
props = []
for f in sorted(glob.glob(os.path.join(V, 'evidence', 'C*.json'))):
    e = json.load(open(f))
    read = set(e['coverage'].get('source_files_read') or [])
    fns = {x['fn'].split('::')[0] for x in e['coverage'].get('functions_under_contract', [])}
    # REFSWEEP_NARROW: only the properties that have a function of a changed file under contract (a third of the work)
    sel = fns if os.environ.get('REFSWEEP_NARROW') else (read | fns)
    if sel & set(changed) or e['property_id'] == own:
        props.append(e['property_id'])
S = tempfile.mkdtemp(prefix='refsweep_', dir='/var/tmp')
try:
    files = subprocess.run(['git', '-C', '/repo', 'ls-files', '-z', 'dataflows'], capture_output=True).stdout.split(b'\0')
    for f in files:
        f = f.decode()
        if f:
            os.makedirs(os.path.join(S, os.path.dirname(f)), exist_ok=True)
            shutil.copy(os.path.join('/repo', f), os.path.join(S, f))
    r = subprocess.run(['patch', '-p1', '-s', '-d', S, '-i', patch], capture_output=True, text=True)
    if r.returncode != 0:
        print('PATCH-DOES-NOT-APPLY', os.path.basename(patch), r.stdout[-200:], r.stderr[-200:])
        sys.exit(2)
    bad = 0
    for p in props:
        env = dict(os.environ, PYVC_REPO=S, PYVC_OUT=os.path.join(S, 'out'))
        cmd = [os.path.join(V, 'check'), p] + ([] if (p == own or os.environ.get('REFSWEEP_FULL')) else ['--no-native'])
        out = subprocess.run(cmd, capture_output=True, text=True, env=env).stdout
        vio = [l for l in out.splitlines() if l.startswith('VIOLATION')]
        last = [l for l in out.splitlines() if ' rc=' in l]
        und = []
        try:
            ev = json.load(open(os.path.join(S, 'out', 'evidence', p + '.json')))
            und = sorted({str(u.get('reason'))[:110] for u in ev['coverage'].get('undecided') or []})
        except Exception:
            pass
        status = 'FALSE-ALARM' if vio else ('undecided' if und else 'ok')
        bad += bool(vio)
        if status != 'ok' or os.environ.get('REFSWEEP_VERBOSE'):
            print('%-12s %s %s %s' % (status, os.path.basename(os.path.dirname(patch)), p, (last[-1][last[-1].find('obligations='):][:110] if last else 'no result')))
        oks = locals().get('oks', 0) + (status == 'ok')
        for v in vio[:4]:
            print('      ', v[:230])
        for u in und[:3]:
            print('       UNDECIDED', u)
    print('SUMMARY %s: %d checks, %d ok, %d false alarms' % (os.path.basename(os.path.dirname(patch)), len(props), oks, bad))
    sys.exit(1 if bad else 0)
finally:
    shutil.rmtree(S, ignore_errors=True)
