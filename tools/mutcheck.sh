#!/bin/bash
# usage: tools/mutcheck.sh <patch.diff> <prop> [more props...]
# Applies the patch to a scratch export of /repo HEAD+worktree (outside /repo and /verif), runs the checks against it
# (PYVC_REPO), prints their last lines, removes the scratch copy.  Never touches /repo.
PATCH=$(readlink -f $1); shift
S=$(mktemp -d /tmp/mutcheck_XXXX)
(cd /repo && git ls-files -z dataflows | xargs -0 cp --parents -t $S)
(cd $S && git init -q . 2>/dev/null; git apply --whitespace=nowarn $PATCH 2>/dev/null || patch -p1 -s < $PATCH) || { echo "PATCH DOES NOT APPLY"; rm -rf $S; exit 2; }
for P in "$@"; do
  PYVC_REPO=$S PYVC_OUT=$S/out /verif/check $P 2>&1 | grep -E "VIOLATION|KNOWN|rc=|CRASH" | cut -c1-220 | head -8
  python3 - $S/out/evidence/$P.json <<'PY'
import json, sys
try:
    j = json.load(open(sys.argv[1]))
    seen = set()
    for u in j['coverage'].get('undecided') or []:
        line = 'UNDECIDED %s: %s' % (u.get('fn'), str(u.get('reason'))[:160])
        if line not in seen:
            seen.add(line)
            print(line)
except Exception as e:
    print('UNDECIDED-INFO-UNAVAILABLE', e)
PY
done
rm -rf $S
