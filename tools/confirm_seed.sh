#!/bin/bash
# usage: confirm_seed.sh <property> <n> <srcdir-with patch.diff demo.py notes.md>
# Confirms a seeded change independently in a fresh scratch worktree and stores it under /verif/seeded/<prop>-<n>/
set -u
PROP=$1; N=$2; SRC=$3
DEST=/verif/seeded/$PROP-$N
WT=$(mktemp -d /var/tmp/confirm_${PROP}_${N}_XXXX)
rmdir $WT
git -C /repo worktree add -q --detach $WT HEAD || exit 2
mkdir -p $DEST
cp $SRC/patch.diff $SRC/demo.py $DEST/
[ -f $SRC/notes.md ] && cp $SRC/notes.md $DEST/
cd $WT
/venv/bin/python $DEST/demo.py > $DEST/demo_clean.out 2>&1; RC_CLEAN=$?
git apply $DEST/patch.diff; RC_APPLY=$?
/venv/bin/python $DEST/demo.py > $DEST/demo_patched.out 2>&1; RC_PATCHED=$?
/venv/bin/python -m pytest -q -p no:cacheprovider --timeout=900 tests \
  --deselect tests/test_cli.py::test_init_remote --deselect tests/test_examples.py::test_example_3 \
  --deselect tests/test_examples.py::test_example_4 --deselect tests/test_examples.py::test_example_5 > $DEST/pytest_patched.out 2>&1; RC_TESTS=$?
TAIL=$(tail -1 $DEST/pytest_patched.out)
cd /
git -C /repo worktree remove --force $WT
python3 - <<PY
import json
json.dump({"property":"$PROP","n":$N,"demo_clean_rc":$RC_CLEAN,"apply_rc":$RC_APPLY,"demo_patched_rc":$RC_PATCHED,
 "tests_patched_rc":$RC_TESTS,"tests_tail":"""$TAIL""",
 "confirmed": ($RC_CLEAN==0 and $RC_APPLY==0 and $RC_PATCHED==1 and $RC_TESTS==0),
 "ran":["demo.py on clean scratch worktree","git apply patch.diff","demo.py on patched worktree","pytest tests (4 network tests deselected) on patched worktree"]},
 open("$DEST/confirm.json","w"), indent=1)
PY
cat $DEST/confirm.json
