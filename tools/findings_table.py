#!/usr/bin/env python3
"""Generates the two tables of DESIGN.md section 12 from known_findings.json and the `fix:` commits of /repo, and rewrites the block
between the markers <!-- findings-table:begin --> / <!-- findings-table:end --> in DESIGN.md.  Bookkeeping only."""
import json, os, re, subprocess
V = os.path.dirname(os.path.dirname(os.path.abspath(__file__)))
j = json.load(open(os.path.join(V, 'known_findings.json')))
log = subprocess.run(['git', '-C', '/repo', 'log', '--reverse', '--format=%h %s'], capture_output=True, text=True).stdout.splitlines()
fixes = [l.split(' ', 1) for l in log if l.split(' ', 1)[1].startswith('fix:')]
by_commit = {}
for f in j:
    if f['status'].startswith('fixed'):
        by_commit.setdefault(f['status'].split(': ')[1], []).append(f)


def short(t, n=330):
    t = re.sub(r'\s+', ' ', t).replace('|', '/')
    return t if len(t) <= n else t[:n - 1] + '…'
out = ['<!-- findings-table:begin -->', '',
       '%d defects were repaired by minimal `fix:` commits in /repo (the 120-test baseline passes after each, unedited); every one is '
       'listed in `known_findings.json` as `fixed:` with the obligation / bounded test that fails on the tree before the fix.' % len(fixes), '',
       '| commit | properties | what failed |', '|---|---|---|']
for h, subj in fixes:
    es = by_commit.get(h, [])
    props = ', '.join(sorted({e['property'] for e in es})) or '?'
    what = short(es[0]['what']) if es else short(subj)
    out.append('| %s | %s | %s |' % (h, props, what))
missing = [h for h, _ in fixes if h not in by_commit]
opens = [f for f in j if f['status'] == 'finding']
out += ['', '%d deviations are recorded as open findings (the check prints `KNOWN-FINDING:` for each and exits 0; any OTHER failure of the same '
        'property is still a violation).  Each is identified by the obligation or the bounded case that fails:' % len(opens), '',
        '| id | property | what fails, and why it is recorded rather than repaired |', '|---|---|---|']
for f in sorted(opens, key=lambda f: (f['property'], f['id'])):
    out.append('| %s | %s | %s |' % (f['id'], f['property'], short(f['what'], 420)))
out += ['', '<!-- findings-table:end -->']
p = os.path.join(V, 'DESIGN.md')
s = open(p).read()
block = '\n'.join(out)
if '<!-- findings-table:begin -->' in s:
    s = re.sub(r'<!-- findings-table:begin -->.*?<!-- findings-table:end -->', lambda m: block, s, flags=re.S)
    open(p, 'w').write(s)
    print('DESIGN.md section 12 tables rewritten: %d fixes, %d open; fix commits without an entry: %s' % (len(fixes), len(opens), missing))
else:
    print(block)
