#!/bin/bash
# Runs every check of one tier (default quick), 4 at a time, and prints one summary line per property.
# usage: tools/run_all.sh [quick|thorough] [logfile]
cd "$(dirname "$0")/.."
TIER=${1:-quick}; LOG=${2:-/dev/stdout}
for p in C01 C02 C03 C04 C05 C06 C07 C08 C09 C10 C11 C12 C13 C14 C15 C16 C17 C18 C19 C20; do echo $p; done |
  xargs -P 4 -I{} sh -c "./check {} --tier $TIER 2>&1 | grep -E '^(VIOLATION|{} tier=)' " > "$LOG" 2>&1
echo ALLDONE >> "$LOG"
