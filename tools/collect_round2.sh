#!/bin/bash
# usage: collect_round2.sh <P>   copies /tmp/wt2_<P>/OUT/{1,2} to seeded/<P>-3, <P>-4 and removes the agent's worktree
P=$1
for n in 1 2; do
  src=/tmp/wt${R:-2}_$P/OUT/$n; dst=/verif/seeded/$P-$((n+${OFF:-2}))
  [ -d $src ] || { echo "$P: no OUT/$n"; continue; }
  mkdir -p $dst; cp $src/patch.diff $src/demo.py $src/notes.md $dst/ 2>/dev/null
  echo "collected $dst"
done
git -C /repo worktree remove --force /tmp/wt${R:-2}_$P 2>/dev/null && echo "removed worktree wt2_$P"
