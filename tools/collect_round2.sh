#!/bin/bash
# usage: collect_round2.sh <P>   copies /tmp/wt2_<P>/OUT/{1,2} to seeded/<P>-3, <P>-4 and removes the agent's worktree
P=$1
for n in 1 2; do
  src=/tmp/wt2_$P/OUT/$n; dst=/verif/seeded/$P-$((n+2))
  [ -d $src ] || { echo "$P: no OUT/$n"; continue; }
  mkdir -p $dst; cp $src/patch.diff $src/demo.py $src/notes.md $dst/ 2>/dev/null
  echo "collected $dst"
done
git -C /repo worktree remove --force /tmp/wt2_$P 2>/dev/null && echo "removed worktree wt2_$P"
