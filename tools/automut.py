#!/usr/bin/env python3
"""Mutation analysis of the contracts (diagnostic, not a check): for the functions a property has under contract, generate
small AST mutants of /repo's current source in scratch copies (outside /repo and /verif), run `./check <P> --no-native` on
each, and record whether a named obligation fails (caught), the prover cannot read / decide the mutant (undecided), or every
obligation is still discharged (survived).  Survivors are then run against the repository's test-suite; what passes both is
written to <out>/survivors.json for inspection: each is either an equivalent mutant or a weakness of the contract.

usage: automut.py <P> [--max N] [--seed S] [--out DIR] [--jobs J] [--tests]
"""
import ast, copy, json, os, random, shutil, subprocess, sys, tempfile, argparse, hashlib
from concurrent.futures import ThreadPoolExecutor

V = os.path.dirname(os.path.dirname(os.path.abspath(__file__)))
REPO = os.environ.get('PYVC_REPO', '/repo')

CMP = {ast.Lt: ast.LtE, ast.LtE: ast.Lt, ast.Gt: ast.GtE, ast.GtE: ast.Gt, ast.Eq: ast.NotEq, ast.NotEq: ast.Eq,
       ast.In: ast.NotIn, ast.NotIn: ast.In, ast.Is: ast.IsNot, ast.IsNot: ast.Is}


def find_fn(tree, qual):
    node = tree
    for name in qual:
        nxt = None
        for n in ast.walk(node) if node is tree else ast.iter_child_nodes(node):
            pass
        for n in (node.body if hasattr(node, 'body') else []):
            if isinstance(n, (ast.FunctionDef, ast.ClassDef)) and n.name == name:
                nxt = n
                break
        if nxt is None:
            # search nested statements (e.g. def inside if)
            for n in ast.walk(node):
                if isinstance(n, (ast.FunctionDef, ast.ClassDef)) and n.name == name and n is not node:
                    nxt = n
                    break
        if nxt is None:
            return None
        node = nxt
    return node


def sites(fn):
    """list of (description, mutate(node_in_copy)) keyed by a path of child indices so it can be replayed on a deepcopy"""
    out = []
    for n in ast.walk(fn):
        if isinstance(n, ast.Compare):
            for i, op in enumerate(n.ops):
                if type(op) in CMP:
                    out.append((n, 'cmp%d:%s->%s' % (i, type(op).__name__, CMP[type(op)].__name__),
                                lambda m, i=i: m.ops.__setitem__(i, CMP[type(m.ops[i])]())))
        elif isinstance(n, ast.BoolOp):
            out.append((n, 'boolop-swap', lambda m: setattr(m, 'op', ast.Or() if isinstance(m.op, ast.And) else ast.And())))
        elif isinstance(n, ast.UnaryOp) and isinstance(n.op, ast.Not):
            out.append((n, 'drop-not', 'REPLACE_WITH_OPERAND'))
        elif isinstance(n, ast.Constant):
            v = n.value
            if isinstance(v, bool):
                out.append((n, 'const:%r->%r' % (v, not v), lambda m: setattr(m, 'value', not m.value)))
            elif isinstance(v, int):
                out.append((n, 'const:%r->%r' % (v, v + 1), lambda m: setattr(m, 'value', m.value + 1)))
            elif isinstance(v, str) and 0 < len(v) < 30 and not getattr(n, '_doc', False):
                out.append((n, 'const:%r->%r' % (v, v + 'X'), lambda m: setattr(m, 'value', m.value + 'X')))
        elif isinstance(n, ast.BinOp) and isinstance(n.op, (ast.Add, ast.Sub)):
            out.append((n, 'binop:%s' % type(n.op).__name__,
                        lambda m: setattr(m, 'op', ast.Sub() if isinstance(m.op, ast.Add) else ast.Add())))
        elif isinstance(n, ast.If):
            out.append((n, 'if-negate', lambda m: setattr(m, 'test', ast.UnaryOp(op=ast.Not(), operand=m.test))))
        elif isinstance(n, ast.Break):
            out.append((n, 'break->pass', 'REPLACE_WITH_PASS'))
        elif isinstance(n, ast.Continue):
            out.append((n, 'continue->pass', 'REPLACE_WITH_PASS'))
        elif isinstance(n, ast.Expr) and isinstance(n.value, ast.Call):
            out.append((n, 'drop-call:%s' % ast.unparse(n.value)[:40], 'REPLACE_WITH_PASS'))
        elif isinstance(n, ast.Expr) and isinstance(n.value, (ast.Yield, ast.YieldFrom)):
            out.append((n, 'drop-yield:%s' % ast.unparse(n.value)[:40], 'REPLACE_WITH_PASS'))
        elif isinstance(n, (ast.Assign, ast.AugAssign)) and not isinstance(getattr(n, 'value', None), (ast.Yield, ast.YieldFrom)):
            out.append((n, 'drop-assign:%s' % ast.unparse(n)[:40], 'REPLACE_WITH_PASS'))
        elif isinstance(n, ast.Return) and n.value is not None:
            out.append((n, 'return-none', lambda m: setattr(m, 'value', ast.Constant(value=None))))
        elif isinstance(n, ast.Call) and len(n.args) >= 2:
            out.append((n, 'swap-args:%s' % ast.unparse(n)[:40], lambda m: m.args.__setitem__(slice(0, 2), [m.args[1], m.args[0]])))
    return out


def mark_docstrings(tree):
    for n in ast.walk(tree):
        if isinstance(n, (ast.FunctionDef, ast.ClassDef, ast.Module)) and n.body and isinstance(n.body[0], ast.Expr) \
                and isinstance(n.body[0].value, ast.Constant) and isinstance(n.body[0].value.value, str):
            n.body[0].value._doc = True


class Replacer(ast.NodeTransformer):
    def __init__(self, target, how):
        self.target, self.how = target, how

    def generic_visit(self, node):
        if node is self.target:
            if self.how == 'REPLACE_WITH_PASS':
                return ast.copy_location(ast.Pass(), node)
            if self.how == 'REPLACE_WITH_OPERAND':
                return node.operand
            self.how(node)
            return node
        return super().generic_visit(node)


def make_mutants(relpath, qual):
    src = open(os.path.join(REPO, relpath)).read()
    tree = ast.parse(src)
    mark_docstrings(tree)
    fn = find_fn(tree, qual)
    if fn is None:
        return []
    res = []
    ss = sites(fn)
    for idx, (node, desc, how) in enumerate(ss):
        t2 = copy.deepcopy(tree)
        mark_docstrings(t2)
        fn2 = find_fn(t2, qual)
        ss2 = sites(fn2)
        if len(ss2) != len(ss):
            continue
        node2, desc2, how2 = ss2[idx]
        t2 = Replacer(node2, how2).visit(t2)
        ast.fix_missing_locations(t2)
        try:
            code = ast.unparse(t2)
            compile(code, relpath, 'exec')
        except Exception:
            continue
        res.append(dict(file=relpath, fn='.'.join(qual), line=getattr(node, 'lineno', 0), desc=desc, code=code))
    return res


def scratch_with(m):
    S = tempfile.mkdtemp(prefix='automut_', dir='/tmp')
    files = subprocess.run(['git', '-C', REPO, 'ls-files', '-z'], capture_output=True).stdout.split(b'\0')
    for f in files:
        f = f.decode()
        if not f:
            continue
        d = os.path.join(S, os.path.dirname(f))
        os.makedirs(d, exist_ok=True)
        srcp = os.path.join(REPO, f)
        if os.path.isfile(srcp):
            shutil.copy(srcp, os.path.join(S, f))
    open(os.path.join(S, m['file']), 'w').write(m['code'])
    return S


def run_check(prop, m, only=None):
    S = scratch_with(m)
    try:
        env = dict(os.environ, PYVC_REPO=S, PYVC_OUT=os.path.join(S, 'out'))
        cmd = [os.path.join(V, 'check'), prop, '--no-native', '--jobs', '4']
        p = subprocess.run(cmd, capture_output=True, text=True, env=env, timeout=1800)
        out = p.stdout + p.stderr
        vio = [l for l in out.splitlines() if l.startswith('VIOLATION')]
        und = []
        try:
            ev = json.load(open(os.path.join(S, 'out', 'evidence', prop + '.json')))
            und = ev['coverage'].get('undecided') or []
        except Exception:
            pass
        if vio:
            verdict = 'caught'
        elif und or p.returncode not in (0, 1):
            verdict = 'undecided'
        else:
            verdict = 'survived'
        return dict(verdict=verdict, violations=[v[:220] for v in vio[:3]], undecided=[str(u.get('reason'))[:160] for u in und[:3]],
                    rc=p.returncode)
    finally:
        shutil.rmtree(S, ignore_errors=True)


def run_tests(m):
    S = scratch_with(m)
    try:
        cmd = ['/venv/bin/python', '-m', 'pytest', '-q', '-x', '-p', 'no:cacheprovider', '--timeout=900', 'tests',
               '--deselect', 'tests/test_cli.py::test_init_remote', '--deselect', 'tests/test_examples.py::test_example_3',
               '--deselect', 'tests/test_examples.py::test_example_4', '--deselect', 'tests/test_examples.py::test_example_5']
        p = subprocess.run(cmd, capture_output=True, text=True, cwd=S, timeout=1800)
        return p.returncode == 0, (p.stdout.strip().splitlines() or [''])[-1][:200]
    finally:
        shutil.rmtree(S, ignore_errors=True)


def main():
    ap = argparse.ArgumentParser()
    ap.add_argument('prop')
    ap.add_argument('--max', type=int, default=30)
    ap.add_argument('--seed', type=int, default=1)
    ap.add_argument('--out', default='/tmp/automut')
    ap.add_argument('--jobs', type=int, default=4)
    ap.add_argument('--tests', action='store_true')
    ap.add_argument('--fn', default=None, help='restrict to functions whose key contains this text')
    a = ap.parse_args()
    os.makedirs(a.out, exist_ok=True)
    ev = json.load(open(os.path.join(V, 'evidence', a.prop + '.json')))
    fns = [f['fn'] for f in ev['coverage']['functions_under_contract']]
    if a.fn:
        fns = [f for f in fns if a.fn in f]
    muts = []
    for key in fns:
        rel, q = key.split('::')
        muts += make_mutants(rel, q.split('.'))
    # de-duplicate identical mutated files
    seen, uniq = set(), []
    for m in muts:
        h = hashlib.sha1((m['file'] + m['code']).encode()).hexdigest()
        if h not in seen:
            seen.add(h)
            uniq.append(m)
    rng = random.Random(a.seed)
    rng.shuffle(uniq)
    chosen = uniq[:a.max]
    print('%s: %d functions, %d mutants, running %d' % (a.prop, len(fns), len(uniq), len(chosen)), flush=True)

    def work(m):
        r = run_check(a.prop, m)
        m2 = {k: v for k, v in m.items() if k != 'code'}
        m2.update(r)
        if r['verdict'] != 'caught' and a.tests:
            ok, tail = run_tests(m)
            m2['tests_pass'] = ok
            m2['tests_tail'] = tail
        print('%-9s %s:%s %s L%d %s' % (m2['verdict'] + ('' if 'tests_pass' not in m2 else ('/T+' if m2['tests_pass'] else '/T-')),
                                      os.path.basename(m2['file']), m2['fn'], '', m2['line'], m2['desc']), flush=True)
        return m2, m
    results = []
    with ThreadPoolExecutor(a.jobs) as ex:
        for m2, m in ex.map(work, chosen):
            results.append(m2)
            if m2['verdict'] != 'caught' and m2.get('tests_pass', True):
                d = os.path.join(a.out, a.prop)
                os.makedirs(d, exist_ok=True)
                tag = '%s_%s_L%d_%s' % (os.path.basename(m['file'])[:-3], m['fn'].replace('.', '_'), m['line'],
                                         hashlib.sha1(m['code'].encode()).hexdigest()[:6])
                base = ast.unparse(ast.parse(open(os.path.join(REPO, m['file'])).read()))
                bf = os.path.join(d, '.base.py')
                open(bf, 'w').write(base + '\n')
                p = subprocess.run(['diff', '-u', bf, '-'], input=m['code'] + '\n', capture_output=True, text=True)
                open(os.path.join(d, tag + '.diff'), 'w').write('# %s %s\n' % (m2['verdict'], m2['desc']) + p.stdout)
    json.dump(results, open(os.path.join(a.out, a.prop + '.json'), 'w'), indent=1)
    from collections import Counter
    c = Counter(r['verdict'] + ('' if 'tests_pass' not in r else ('/tests-pass' if r['tests_pass'] else '/tests-fail')) for r in results)
    print('SUMMARY', a.prop, dict(c))


if __name__ == '__main__':
    main()
