#!/usr/bin/env python3
"""Builds seeded/<id>/meta.json and seeded/RESULTS.md from what is stored next to every seeded change:
   notes.md (the sub-agent's description), reconfirm.json (tools/reconfirm_seed.sh: my own confirmation against the current
   /repo HEAD in a scratch worktree) and check_result.txt (tools/seed_sweep.sh: verdict lines of /verif/check run against a
   scratch copy with the change applied).  Pure bookkeeping: nothing here decides a property."""
import json, os, re, sys, glob

ROOT = os.path.join(os.path.dirname(os.path.abspath(__file__)), '..', 'seeded')
OBSOLETE = {
    'C10-2': "neutralised by fix cb50cf7: set_type now starts self.field_names afresh for every package, so names selected in an earlier "
             "use of the step object can no longer make an unselected resource go through transform / cast when the matcher check is "
             "dropped (within one run field_names only has entries for selected resources, as the change's comment says).",
    'C14-6': "neutralised by fix cb50cf7: set_type now collects the matched field names afresh for every package, so registering them with "
             "setdefault(name, [...]) instead of append no longer keeps anything from an earlier use (the defect the change introduced was "
             "a variant of one the pinned tree already had: stale names of an earlier use; the check now covers step reuse natively).",
    'C04-2': "neutralised by fix 51d5eff: UniqueKeyError is a subclass of CastError and the CastError clause now re-raises, so removing "
             "the UniqueKeyError clause no longer changes behaviour (demo passes on the patched tree); on the pinned tree it silenced the error.",
    'C05-2': "superseded by fix 611c890: printer's per-resource pass-through branch (the code the change edits) was replaced by a "
             "package-level step; before that fix the change was caught by C10 (obligation printer.func: unselected resource re-yielded).",
}


def blocks(text):
    out, cur = [], []
    for line in text.splitlines():
        if re.match(r'^(\s*[-*] |\*\*|#)', line) and cur:
            out.append('\n'.join(cur)); cur = []
        if line.strip() == '' and cur:
            out.append('\n'.join(cur)); cur = []
            continue
        if line.strip():
            cur.append(line)
    if cur:
        out.append('\n'.join(cur))
    return out


def pick(bl, pat):
    for b in bl:
        head = b.lstrip('-* ').lstrip()[:60]
        if re.search(pat, head, re.I):
            return re.sub(r'\s+', ' ', b.lstrip('-* ')).strip()
    return None


def verdicts(path):
    res, cur = {}, None
    if not os.path.exists(path):
        return res, None
    head = None
    for line in open(path):
        line = line.rstrip('\n')
        if line.startswith('# seed='):
            head = line[2:]
        elif line.startswith('## check '):
            cur = line.split()[-1]; res[cur] = []
        elif cur:
            res[cur].append(line)
    return res, head


def classify(lines):
    """-> (caught, how)"""
    vio = [l for l in lines if l.startswith('VIOLATION')]
    if not vio:
        und = [l for l in lines if 'rc=' in l]
        return False, (und[-1] if und else 'no output')
    proof = [l for l in vio if 'native.' not in l]
    nat = [l for l in vio if 'native.' in l]
    how = []
    if proof:
        how.append('proof obligation')
    if nat:
        how.append('bounded harness')
    return True, ' + '.join(how)


def main():
    rows = []
    for d in sorted(glob.glob(os.path.join(ROOT, 'C*-*'))):
        sid = os.path.basename(d)
        prop = sid.split('-')[0]
        notes = open(os.path.join(d, 'notes.md')).read() if os.path.exists(os.path.join(d, 'notes.md')) else ''
        bl = blocks(notes)
        title = notes.splitlines()[0].lstrip('# ').strip() if notes else sid
        rc = json.load(open(os.path.join(d, 'reconfirm.json'))) if os.path.exists(os.path.join(d, 'reconfirm.json')) else None
        if rc is None and os.path.exists(os.path.join(d, 'confirm.json')):
            # round 4: confirmed once by tools/confirm_seed.sh (same procedure) against the HEAD the agents' worktrees were made from
            c = json.load(open(os.path.join(d, 'confirm.json')))
            rc = dict(seed=sid, repo_head=c.get('repo_head', '6de17ea'), patch='patch.diff', demo_clean_rc=c['demo_clean_rc'],
                      apply_rc=c['apply_rc'], demo_patched_rc=c['demo_patched_rc'], tests_patched_rc=c['tests_patched_rc'],
                      tests_tail=c['tests_tail'], confirmed=c['confirmed'])
        ver, head = verdicts(os.path.join(d, 'check_result.txt'))
        caught_by = {}
        for p, lines in ver.items():
            c, how = classify(lines)
            caught_by[p] = {'caught': c, 'how': how,
                            'violation_lines': [l for l in lines if l.startswith('VIOLATION')][:6]}
        status = 'kept'
        if sid in OBSOLETE:
            status = 'obsolete'
        elif rc is not None and not rc.get('confirmed'):
            status = 'not-confirmed-on-current-head'
        meta = {
            'id': sid, 'property': prop, 'status': status, 'title': title,
            'change': pick(bl, r'^\**change'),
            'breaks_property_because': pick(bl, r'why it breaks'),
            'needs_to_manifest': pick(bl, r'(need|what is needed|trigger|manifest)'),
            'why_tests_pass': pick(bl, r'why (the )?tests'),
            'patch_for_current_head': (rc or {}).get('patch', 'patch.diff'),
            'files': sorted(f for f in os.listdir(d) if not f.startswith('re_') and f != 'meta.json'),
            'what_i_ran': {
                'confirmation': 'tools/reconfirm_seed.sh %s: fresh scratch worktree of /repo HEAD outside /repo and /verif; demo.py on the '
                                'clean tree (must exit 0); git apply of the patch; demo.py again (must exit 1); the repository test '
                                'suite without the 4 network tests (must pass); worktree removed' % sid,
                'confirmation_result': rc,
                'check_run': 'tools/seed_sweep.sh %s: /verif/check <property> against a scratch copy of /repo with the patch applied '
                             '(PYVC_REPO), /repo never touched' % sid,
                'check_run_header': head,
            },
            'checks': caught_by,
        }
        if sid in OBSOLETE:
            meta['obsolete_reason'] = OBSOLETE[sid]
        json.dump(meta, open(os.path.join(d, 'meta.json'), 'w'), indent=1)
        rows.append(meta)
    with open(os.path.join(ROOT, 'RESULTS.md'), 'w') as f:
        f.write('# Seeded changes and the checks that catch them\n\n'
                'Generated by tools/seed_table.py from seeded/*/reconfirm.json and seeded/*/check_result.txt.\n\n'
                '| seed | status | confirmed on HEAD | what it needs | caught by |\n|---|---|---|---|---|\n')
        for m in rows:
            rc = m['what_i_ran']['confirmation_result']
            conf = 'n/a' if rc is None else ('yes (%s)' % rc['repo_head'] if rc['confirmed'] else 'NO')
            cb = '; '.join('%s: %s' % (p, (v['how'] if v['caught'] else 'MISSED (' + v['how'] + ')')) for p, v in m['checks'].items()) or '-'
            need = (m['needs_to_manifest'] or '')[:160].replace('|', '/')
            f.write('| %s | %s | %s | %s | %s |\n' % (m['id'], m['status'], conf, need, cb))
    for m in rows:
        own = m['checks'].get(m['property'])
        print(m['id'], m['status'], 'confirmed' if (m['what_i_ran']['confirmation_result'] or {}).get('confirmed') else 'unconfirmed',
              {p: (v['how'] if v['caught'] else 'MISSED') for p, v in m['checks'].items()})


if __name__ == '__main__':
    main()
