#!/usr/bin/env python3
"""Second pass of the mutation analysis: every mutant that the prover of ONE property did not refute and that passes the
repository's tests is run against the FULL checks (prover + bounded harness) of every property that has the mutated function
under contract.  Output: /tmp/automut/final.json and a table on stdout.
usage: automut_post.py [--dir /tmp/automut]"""
import ast, glob, json, os, shutil, subprocess, sys, tempfile, hashlib
V = os.path.dirname(os.path.dirname(os.path.abspath(__file__)))
D = sys.argv[2] if len(sys.argv) > 2 and sys.argv[1] == '--dir' else '/tmp/automut'
REPO = '/repo'
fn2props = {}
for f in glob.glob(os.path.join(V, 'evidence', 'C*.json')):
    e = json.load(open(f))
    for x in e['coverage'].get('functions_under_contract', []):
        fn2props.setdefault(x['fn'], set()).add(e['property_id'])
seen = {}
for dd in sorted(glob.glob(os.path.join(D, 'C*/'))):
    for df in sorted(glob.glob(os.path.join(dd, '*.diff'))):
        txt = open(df).read()
        head = txt.splitlines()[0]
        body = '\n'.join(txt.splitlines()[1:]) + '\n'
        h = hashlib.sha1(body.split('\n', 2)[2].encode()).hexdigest() if body.count('\n') > 2 else df
        seen.setdefault(h, (df, head, body))
print('%d distinct surviving mutants' % len(seen))
out = []


def one(item):
    h, (df, head, body) = item
    name = os.path.basename(df)[:-5]
    # which file / function?  file from the per-property json
    prop = os.path.basename(os.path.dirname(df))
    recs = json.load(open(os.path.join(D, prop + '.json')))
    rec = None
    for r in recs:
        tag = '%s_%s_L%d_' % (os.path.basename(r['file'])[:-3], r['fn'].replace('.', '_'), r['line'])
        if name.startswith(tag) and r['desc'] in head:
            rec = r
    if rec is None:
        return
    S = tempfile.mkdtemp(prefix='ampost_', dir='/tmp')
    try:
        files = subprocess.run(['git', '-C', REPO, 'ls-files', '-z', 'dataflows'], capture_output=True).stdout.split(b'\0')
        for f in files:
            f = f.decode()
            if f:
                os.makedirs(os.path.join(S, os.path.dirname(f)), exist_ok=True)
                shutil.copy(os.path.join(REPO, f), os.path.join(S, f))
        tgt = os.path.join(S, rec['file'])
        base = ast.unparse(ast.parse(open(tgt).read())) + '\n'
        open(tgt, 'w').write(base)
        p = subprocess.run(['patch', '-s', tgt], input=body, capture_output=True, text=True)
        if p.returncode != 0:
            print('cannot re-apply', name, p.stdout[-100:])
            return
        key = '%s::%s' % (rec['file'], rec['fn'])
        props = sorted(fn2props.get(key, {prop}))
        res = {}
        for P in props:
            env = dict(os.environ, PYVC_REPO=S, PYVC_OUT=os.path.join(S, 'out'))
            o = subprocess.run([os.path.join(V, 'check'), P], capture_output=True, text=True, env=env).stdout
            vio = [l for l in o.splitlines() if l.startswith('VIOLATION')]
            res[P] = ('proof' if any('native.' not in v for v in vio) else 'bounded') if vio else 'no'
        caught = [P for P, r in res.items() if r != 'no']
        out.append(dict(mutant=name, file=rec['file'], fn=rec['fn'], line=rec['line'], desc=rec['desc'], results=res, caught=bool(caught), diff=df))
        print('%-7s %s %s L%d %s %s' % ('CAUGHT' if caught else 'LIVE', os.path.basename(rec['file']), rec['fn'], rec['line'], rec['desc'][:50], res), flush=True)
    finally:
        shutil.rmtree(S, ignore_errors=True)


from concurrent.futures import ThreadPoolExecutor
with ThreadPoolExecutor(3) as ex:
    list(ex.map(one, list(seen.items())))
json.dump(out, open(os.path.join(D, 'final.json'), 'w'), indent=1)
print('LIVE: %d of %d' % (sum(1 for x in out if not x['caught']), len(out)))
