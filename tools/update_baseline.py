#!/usr/bin/env python3
"""records the number of obligations each contract item generates on the current (pinned) tree, from evidence/*.json"""
import json, glob, os
V = os.path.dirname(os.path.dirname(os.path.abspath(__file__)))
out = {}
for f in sorted(glob.glob(os.path.join(V, 'evidence', 'C*.json'))):
    e = json.load(open(f))
    out[e['property_id']] = e['coverage'].get('obligations_per_item', {})
json.dump(out, open(os.path.join(V, 'contracts', 'baseline_counts.json'), 'w'), indent=1, sort_keys=True)
print({k: sum(v.values()) for k, v in out.items()})
