#!/usr/bin/env python3
"""usage: add_finding.py <id> <property> <status: 'fixed: <hash>' | 'finding'> <obligation-regex> <native-regex or -> <what...>"""
import json, sys, os
p = os.path.join(os.path.dirname(os.path.dirname(os.path.abspath(__file__))), 'known_findings.json')
j = json.load(open(p))
fid, prop, status, obl, nat = sys.argv[1:6]
what = ' '.join(sys.argv[6:])
j = [x for x in j if x['id'] != fid]
e = {"id": fid, "property": prop, "status": status, "obligation": obl, "what": what,
     "record": ("fixed: property=%s %s %s" % (prop, status.split(': ')[1], what)) if status.startswith('fixed') else "finding: property=%s %s" % (prop, what)}
if nat != '-':
    e['native'] = nat
j.append(e)
json.dump(j, open(p, 'w'), indent=1)
print('recorded', fid)
