#!/bin/bash
# usage: tools/seed_sweep.sh <seed-dir> [extra props...]
# Runs the seed's own property check (and any extra ones) against a scratch copy of /repo with the seed applied
# (via tools/mutcheck.sh, never touching /repo) and stores the verdict lines in <seed-dir>/check_result.txt.
SD=$(readlink -f $1); shift
ID=$(basename $SD); P=${ID%-*}
PATCH=$SD/patch.diff; [ -f $SD/patch_current.diff ] && PATCH=$SD/patch_current.diff
{
  echo "# seed=$ID patch=$(basename $PATCH) repo_head=$(git -C /repo log --format=%h -1) verif_head=$(git -C /verif log --format=%h -1) date=$(date -u +%FT%TZ)"
  for Q in $P "$@"; do
    echo "## check $Q"
    /verif/tools/mutcheck.sh $PATCH $Q
  done
} > $SD/check_result.txt 2>&1
grep -c VIOLATION $SD/check_result.txt | sed "s/^/$ID violations: /"
