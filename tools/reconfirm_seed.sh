#!/bin/bash
# usage: reconfirm_seed.sh <seed-dir>   (e.g. /verif/seeded/C01-1)
# Re-confirms a stored seed against the CURRENT /repo HEAD in a fresh scratch worktree: picks patch_current.diff if present
# else patch.diff; demo must PASS clean, FAIL patched; the 120-test suite must pass patched. Writes reconfirm.json.
set -u
SD=$(readlink -f $1)
PATCH=$SD/patch.diff; [ -f $SD/patch_current.diff ] && PATCH=$SD/patch_current.diff
WT=$(mktemp -d /tmp/reconf_XXXX); rmdir $WT
git -C /repo worktree add -q --detach $WT HEAD || exit 2
cd $WT
timeout 900 /venv/bin/python $SD/demo.py > $SD/re_demo_clean.out 2>&1; RC_CLEAN=$?
git apply $PATCH 2>/dev/null; RC_APPLY=$?
RC_PATCHED=-1; RC_TESTS=-1; TAIL=""
if [ $RC_APPLY -eq 0 ]; then
  timeout 900 /venv/bin/python $SD/demo.py > $SD/re_demo_patched.out 2>&1; RC_PATCHED=$?
  /venv/bin/python -m pytest -q -p no:cacheprovider --timeout=900 tests \
    --deselect tests/test_cli.py::test_init_remote --deselect tests/test_examples.py::test_example_3 \
    --deselect tests/test_examples.py::test_example_4 --deselect tests/test_examples.py::test_example_5 > $SD/re_pytest.out 2>&1; RC_TESTS=$?
  TAIL=$(tail -1 $SD/re_pytest.out)
fi
cd /
git -C /repo worktree remove --force $WT
HEAD=$(git -C /repo log --format=%h -1)
python3 - <<PY
import json
json.dump({"seed":"$(basename $SD)","repo_head":"$HEAD","patch":"$(basename $PATCH)","demo_clean_rc":$RC_CLEAN,"apply_rc":$RC_APPLY,
 "demo_patched_rc":$RC_PATCHED,"tests_patched_rc":$RC_TESTS,"tests_tail":"""$TAIL""",
 "confirmed": ($RC_CLEAN==0 and $RC_APPLY==0 and $RC_PATCHED==1 and $RC_TESTS==0)}, open("$SD/reconfirm.json","w"), indent=1)
PY
cat $SD/reconfirm.json | tr '\n' ' '; echo
