#!/usr/bin/env python3
"""writes MANIFEST.json from contracts/*.py (claimed) and tools/not_applicable.json"""
import json, os, re, importlib, sys
V = os.path.dirname(os.path.dirname(os.path.abspath(__file__)))
sys.path.insert(0, V)
props = [json.loads(l) for l in open(os.path.join(V, 'properties.jsonl'))]
na = json.load(open(os.path.join(V, 'tools', 'not_applicable.json')))
meta = json.load(open(os.path.join(V, 'tools', 'claims.json')))
kf = json.load(open(os.path.join(V, 'known_findings.json')))
checks = []
for p in props:
    pid = p['id']
    if pid in na or not os.path.exists(os.path.join(V, 'contracts', pid + '.py')):
        continue
    m = meta.get(pid, {})
    checks.append(dict(
        property_id=pid,
        quick_cmd='./check %s --tier quick' % pid,
        thorough_cmd='./check %s --tier thorough' % pid,
        evidence_file='evidence/%s.json' % pid,
        replay_cmd_template='./check %s --replay {path}' % pid,
        engine='pyvc',
        level_claimed=dict(category=m.get('category', 'proof'), text=m.get('text', ''), design_ref=m.get('design_ref', 'DESIGN.md 6 ' + pid)),
        level_note=(m.get('note', '') + ' Recorded (open) findings of this property, each reproduced against the real code and reported as '
                    'KNOWN-FINDING by the check: ' + (', '.join(sorted(f['id'] for f in kf if f['property'] == pid and f['status'] == 'finding')) or 'none')
                    + '. Repaired by fix: commits: ' + (', '.join(sorted({f['status'].split(': ')[1] for f in kf if f['property'] == pid and
                                                                          f['status'].startswith('fixed')})) or 'none') + '.').strip(),
        technique=m.get('technique', 'contract-based deductive verification: VCs generated from the AST of the real functions (pyvc), discharged by z3/cvc5'),
    ))
claimed = {c['property_id'] for c in checks}
na_list = [dict(property_id=p['id'], reason=na.get(p['id'], 'no check built yet in this session (work in progress; see DESIGN.md 9)'))
           for p in props if p['id'] not in claimed]
man = dict(
    version=1,
    setup_cmd='mkdir -p evidence replay && python3-vt -c "import z3, sys; sys.path.insert(0, \'.\'); import pyvc.cli" && /venv/bin/python -c "import dataflows"',
    hooks=dict(guard='DATAFLOWS_VERIF', enable='no hooks: contracts are sidecars under /verif/contracts, /repo is read with ast.parse on every run',
               baseline_off_cmd='cd /repo && /venv/bin/python -m pytest -ra -q -p no:cacheprovider --timeout=900 --continue-on-collection-errors',
               source_commits=[], add_only=True),
    engines=[dict(name='pyvc', path='pyvc/', serves_properties=sorted(claimed),
                  kind_free_text='home-made VC generator: symbolic execution of the Python AST of the real /repo functions against sidecar contracts; z3 5.1 (primary) + cvc5 1.0.3 (unknowns / thorough tier); bounded native differential harness (harness/native.py) as labelled stand-in')],
    checks=checks,
    notes='Exit 0 held / 1 violation / 3 checker crash. fix: commits in /repo are listed in known_findings.json as fixed entries.',
    not_applicable=na_list,
)
json.dump(man, open(os.path.join(V, 'MANIFEST.json'), 'w'), indent=1)
print('claimed', sorted(claimed))
